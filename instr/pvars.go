package main

import (
	"go/ast"
	"go/token"
	"strconv"
)

// Package-level variable instrumentation (scheduling points for E4). Resolution is syntactic but
// exact: go/parser resolves identifiers within a file (Ident.Obj); a use of a package-level
// variable declared in the same file has Obj.Decl = a top-level ValueSpec, one declared in
// another file of the package is unresolved in this file (listed in File.Unresolved) and its name
// is in the package's variable set.

type pvarInfo struct {
	vars     map[string]bool         // names of package-level variables (all files)
	topSpecs map[*ast.ValueSpec]bool // top-level var specs
	ids      map[string]int          // variable name -> id
	names    []string
}

func analysePVars(fset *token.FileSet, dir string, files []*ast.File) (*pvarInfo, error) {
	info := &pvarInfo{vars: map[string]bool{}, topSpecs: map[*ast.ValueSpec]bool{}, ids: map[string]int{}}
	for _, f := range files {
		for _, d := range f.Decls {
			gd, ok := d.(*ast.GenDecl)
			if !ok || gd.Tok != token.VAR {
				continue
			}
			for _, s := range gd.Specs {
				vs := s.(*ast.ValueSpec)
				info.topSpecs[vs] = true
				for _, n := range vs.Names {
					if n.Name == "_" {
						continue
					}
					info.vars[n.Name] = true
					if _, ok := info.ids[n.Name]; !ok {
						info.ids[n.Name] = len(info.names)
						info.names = append(info.names, n.Name)
					}
				}
			}
		}
	}
	return info, nil
}

// wrapPVars rewrites every use of a package-level variable inside a function body into
// (*verifhook.P(id, kind, &v)); kind 0 = read, 1 = write (assignment / inc-dec target),
// 2 = address taken. Returns the number of wrapped uses.
func wrapPVars(f *ast.File, info *pvarInfo, rep *report) int {
	unresolved := map[*ast.Ident]bool{}
	for _, id := range f.Unresolved {
		unresolved[id] = true
	}
	isPVar := func(id *ast.Ident) bool {
		if !info.vars[id.Name] {
			return false
		}
		if id.Obj != nil {
			if id.Obj.Kind != ast.Var {
				return false
			}
			vs, ok := id.Obj.Decl.(*ast.ValueSpec)
			return ok && info.topSpecs[vs]
		}
		return unresolved[id]
	}
	n := 0
	wrap := func(id *ast.Ident, kind int) ast.Expr {
		n++
		if rep.PVars == nil {
			rep.PVars = map[string]int{}
		}
		rep.PVars[id.Name]++
		call := &ast.CallExpr{
			Fun: &ast.SelectorExpr{X: ast.NewIdent("verifhook"), Sel: ast.NewIdent("P")},
			Args: []ast.Expr{
				&ast.BasicLit{Kind: token.INT, Value: strconv.Itoa(info.ids[id.Name])},
				&ast.BasicLit{Kind: token.INT, Value: strconv.Itoa(kind)},
				&ast.UnaryExpr{Op: token.AND, X: ast.NewIdent(id.Name)},
			},
		}
		return &ast.ParenExpr{X: &ast.StarExpr{X: call}}
	}
	// rewrite walks an expression tree and replaces package-variable identifiers.
	var rewrite func(e ast.Expr, kind int) ast.Expr
	var rewriteStmt func(s ast.Stmt)
	rewriteList := func(es []ast.Expr, kind int) {
		for i := range es {
			es[i] = rewrite(es[i], kind)
		}
	}
	rewrite = func(e ast.Expr, kind int) ast.Expr {
		switch x := e.(type) {
		case nil:
			return nil
		case *ast.Ident:
			if isPVar(x) {
				return wrap(x, kind)
			}
			return x
		case *ast.ParenExpr:
			x.X = rewrite(x.X, kind)
		case *ast.SelectorExpr:
			x.X = rewrite(x.X, kind)
		case *ast.IndexExpr:
			x.X = rewrite(x.X, kind)
			x.Index = rewrite(x.Index, 0)
		case *ast.SliceExpr:
			// slicing a package-level array or slice hands out a mutable alias: address taken
			if kind == 0 {
				kind = 2
			}
			x.X = rewrite(x.X, kind)
			x.Low = rewrite(x.Low, 0)
			x.High = rewrite(x.High, 0)
			x.Max = rewrite(x.Max, 0)
		case *ast.StarExpr:
			x.X = rewrite(x.X, 0)
		case *ast.UnaryExpr:
			if x.Op == token.AND {
				x.X = rewrite(x.X, 2)
			} else {
				x.X = rewrite(x.X, 0)
			}
		case *ast.BinaryExpr:
			x.X = rewrite(x.X, 0)
			x.Y = rewrite(x.Y, 0)
		case *ast.CallExpr:
			// a method call on a package-level variable may have a pointer receiver: address taken
			if sel, ok := x.Fun.(*ast.SelectorExpr); ok {
				sel.X = rewrite(sel.X, 2)
			} else {
				x.Fun = rewrite(x.Fun, 0)
			}
			rewriteList(x.Args, 0)
		case *ast.TypeAssertExpr:
			x.X = rewrite(x.X, 0)
		case *ast.KeyValueExpr:
			// keys of composite literals are field names / constant indexes: left alone
			x.Value = rewrite(x.Value, 0)
		case *ast.CompositeLit:
			rewriteList(x.Elts, 0)
		case *ast.FuncLit:
			rewriteStmt(x.Body)
		}
		return e
	}
	rewriteStmt = func(s ast.Stmt) {
		switch x := s.(type) {
		case nil:
		case *ast.BlockStmt:
			for _, st := range x.List {
				rewriteStmt(st)
			}
		case *ast.ExprStmt:
			x.X = rewrite(x.X, 0)
		case *ast.AssignStmt:
			if x.Tok == token.DEFINE {
				// new local variables on the left: only the right side has uses
				rewriteList(x.Rhs, 0)
				// but `a, pkgvar := ...` cannot redeclare a package variable inside a function
			} else {
				rewriteList(x.Lhs, 1)
				rewriteList(x.Rhs, 0)
			}
		case *ast.IncDecStmt:
			x.X = rewrite(x.X, 1)
		case *ast.ReturnStmt:
			rewriteList(x.Results, 0)
		case *ast.IfStmt:
			rewriteStmt(x.Init)
			x.Cond = rewrite(x.Cond, 0)
			rewriteStmt(x.Body)
			rewriteStmt(x.Else)
		case *ast.ForStmt:
			rewriteStmt(x.Init)
			x.Cond = rewrite(x.Cond, 0)
			rewriteStmt(x.Post)
			rewriteStmt(x.Body)
		case *ast.RangeStmt:
			x.X = rewrite(x.X, 0)
			if x.Tok == token.ASSIGN {
				x.Key = rewrite(x.Key, 1)
				x.Value = rewrite(x.Value, 1)
			}
			rewriteStmt(x.Body)
		case *ast.SwitchStmt:
			rewriteStmt(x.Init)
			x.Tag = rewrite(x.Tag, 0)
			rewriteStmt(x.Body)
		case *ast.TypeSwitchStmt:
			rewriteStmt(x.Init)
			rewriteStmt(x.Assign)
			rewriteStmt(x.Body)
		case *ast.CaseClause:
			rewriteList(x.List, 0)
			for _, st := range x.Body {
				rewriteStmt(st)
			}
		case *ast.LabeledStmt:
			rewriteStmt(x.Stmt)
		case *ast.DeferStmt:
			x.Call.Fun = rewrite(x.Call.Fun, 0)
			rewriteList(x.Call.Args, 0)
		case *ast.GoStmt:
			x.Call.Fun = rewrite(x.Call.Fun, 0)
			rewriteList(x.Call.Args, 0)
		case *ast.SendStmt:
			x.Chan = rewrite(x.Chan, 0)
			x.Value = rewrite(x.Value, 0)
		case *ast.SelectStmt:
			rewriteStmt(x.Body)
		case *ast.CommClause:
			rewriteStmt(x.Comm)
			for _, st := range x.Body {
				rewriteStmt(st)
			}
		case *ast.DeclStmt:
			if gd, ok := x.Decl.(*ast.GenDecl); ok && gd.Tok == token.VAR {
				for _, sp := range gd.Specs {
					if vs, ok := sp.(*ast.ValueSpec); ok {
						rewriteList(vs.Values, 0)
					}
				}
			}
		}
	}
	for _, d := range f.Decls {
		fd, ok := d.(*ast.FuncDecl)
		if !ok || fd.Body == nil {
			continue
		}
		rewriteStmt(fd.Body)
	}
	return n
}
