package main

import (
	"go/ast"
	"go/token"
)

// pvarInfo is filled by analysePVars (package-level variable analysis). Stub until E4 is built.
type pvarInfo struct {
	vars map[string]bool
}

func analysePVars(fset *token.FileSet, dir string, files []*ast.File) (*pvarInfo, error) {
	return nil, nil
}

func wrapPVars(f *ast.File, info *pvarInfo, rep *report) int { return 0 }
