// Command instr derives instrumented copies of the rjson sources from the *working tree* of the
// repository and writes a `go build -overlay` description. Nothing in the repository is modified.
//
//	instr -repo /repo -out <workdir> -hooks /verif/hooks [-mode full|bare] [-pvars]
//
// full: machine hooks (Enter/Exit/EOF) in every function that has a `_test_eof` label, import
// rewrite sync -> internal/vsync, optionally (-pvars) wrapping of package-level variable uses.
// bare: only the virtual packages are added (used by the degradation ladder: hooks never fire).
package main

import (
	"bytes"
	"encoding/json"
	"flag"
	"fmt"
	"go/ast"
	"go/format"
	"go/parser"
	"go/token"
	"os"
	"path/filepath"
	"regexp"
	"sort"
	"strconv"
	"strings"
)

const hookImport = "github.com/willabides/rjson/verifhook"
const vsyncImport = "github.com/willabides/rjson/verifhook/vsync"
const vatomicImport = "github.com/willabides/rjson/verifhook/vatomic"

type report struct {
	Mode      string         `json:"mode"`
	Machines  map[string]int `json:"machines"` // function -> number of _test_eofN labels
	Files     []string       `json:"files"`
	SyncFiles []string       `json:"sync_files"`
	PVars     map[string]int `json:"pvars,omitempty"` // package var -> wrapped uses
	PVarNames []string       `json:"pvar_names,omitempty"`
	Notes     []string       `json:"notes,omitempty"`
}

var eofN = regexp.MustCompile(`^_test_eof[0-9]+$`)

func main() {
	repo := flag.String("repo", "/repo", "repository root (working tree is read)")
	out := flag.String("out", "", "work directory for generated files")
	hooks := flag.String("hooks", "/verif/hooks", "directory with the virtual package sources")
	mode := flag.String("mode", "full", "full|bare")
	pvars := flag.Bool("pvars", false, "wrap package-level variable uses (scheduler points)")
	flag.Parse()
	if *out == "" {
		fmt.Fprintln(os.Stderr, "instr: -out required")
		os.Exit(2)
	}
	if err := os.MkdirAll(*out, 0o755); err != nil {
		die(err)
	}
	rep := &report{Mode: *mode, Machines: map[string]int{}}
	replace := map[string]string{}
	// virtual packages
	replace[filepath.Join(*repo, "verifhook", "hook.go")] = filepath.Join(*hooks, "verifhook", "hook.go")
	if _, err := os.Stat(filepath.Join(*hooks, "verifhook", "sched.go")); err == nil {
		replace[filepath.Join(*repo, "verifhook", "sched.go")] = filepath.Join(*hooks, "verifhook", "sched.go")
	}
	replace[filepath.Join(*repo, "verifhook", "vsync", "vsync.go")] = filepath.Join(*hooks, "vsync", "vsync.go")
	if _, err := os.Stat(filepath.Join(*hooks, "vatomic", "vatomic.go")); err == nil {
		replace[filepath.Join(*repo, "verifhook", "vatomic", "vatomic.go")] = filepath.Join(*hooks, "vatomic", "vatomic.go")
	}

	if *mode == "full" {
		dirs := []string{*repo, filepath.Join(*repo, "internal", "fp")}
		for _, dir := range dirs {
			if err := instrumentDir(dir, *out, replace, rep, *pvars); err != nil {
				rep.Notes = append(rep.Notes, "instrumentation of "+dir+" failed: "+err.Error())
			}
		}
	}
	// totals.go
	var tb bytes.Buffer
	tb.WriteString("//go:build verif\n\npackage verifhook\n\nfunc init() {\n")
	var fns []string
	for fn := range rep.Machines {
		fns = append(fns, fn)
	}
	sort.Strings(fns)
	for _, fn := range fns {
		fmt.Fprintf(&tb, "\tTotals[%q] = %d\n", fn, rep.Machines[fn])
	}
	for i, n := range rep.PVarNames {
		fmt.Fprintf(&tb, "\tPVarName[%d] = %q\n", i, n)
	}
	tb.WriteString("}\n\nvar PVarName = map[int]string{}\n")
	tot := filepath.Join(*out, "verifhook_totals.go")
	if err := os.WriteFile(tot, tb.Bytes(), 0o644); err != nil {
		die(err)
	}
	replace[filepath.Join(*repo, "verifhook", "totals.go")] = tot

	ov, _ := json.MarshalIndent(map[string]interface{}{"Replace": replace}, "", " ")
	if err := os.WriteFile(filepath.Join(*out, "overlay.json"), ov, 0o644); err != nil {
		die(err)
	}
	rb, _ := json.MarshalIndent(rep, "", " ")
	_ = os.WriteFile(filepath.Join(*out, "instr_report.json"), rb, 0o644)
}

func die(err error) {
	fmt.Fprintln(os.Stderr, "instr:", err)
	os.Exit(2)
}

func instrumentDir(dir, out string, replace map[string]string, rep *report, pvars bool) error {
	ents, err := os.ReadDir(dir)
	if err != nil {
		return err
	}
	fset := token.NewFileSet()
	type pf struct {
		path string
		f    *ast.File
	}
	var files []pf
	for _, e := range ents {
		n := e.Name()
		if e.IsDir() || !strings.HasSuffix(n, ".go") || strings.HasSuffix(n, "_test.go") {
			continue
		}
		path := filepath.Join(dir, n)
		src, err := os.ReadFile(path)
		if err != nil {
			return err
		}
		if bytes.Contains(src, []byte("+build gofuzz")) || bytes.Contains(src, []byte("go:build gofuzz")) {
			continue
		}
		f, err := parser.ParseFile(fset, path, src, parser.ParseComments)
		if err != nil {
			return err
		}
		files = append(files, pf{path, f})
	}
	var pinfo *pvarInfo
	if pvars {
		var fs []*ast.File
		for _, x := range files {
			fs = append(fs, x.f)
		}
		pinfo, err = analysePVars(fset, dir, fs)
		if pinfo != nil {
			base := len(rep.PVarNames)
			for name, id := range pinfo.ids {
				pinfo.ids[name] = id + base
			}
			for _, n := range pinfo.names {
				rep.PVarNames = append(rep.PVarNames, filepath.Base(dir)+"."+n)
			}
		}
		if err != nil {
			rep.Notes = append(rep.Notes, "pvars analysis failed for "+dir+": "+err.Error())
			pinfo = nil
		}
	}
	for _, x := range files {
		changed := false
		needHook := false
		// 1. machine hooks
		for _, d := range x.f.Decls {
			fd, ok := d.(*ast.FuncDecl)
			if !ok || fd.Body == nil {
				continue
			}
			if n := hookMachine(fd); n > 0 {
				rep.Machines[fd.Name.Name] = n
				changed, needHook = true, true
			}
		}
		// 2. sync -> vsync
		for _, im := range x.f.Imports {
			if im.Path.Value == `"sync"` {
				im.Path.Value = strconv.Quote(vsyncImport)
				if im.Name == nil {
					im.Name = ast.NewIdent("sync")
				}
				changed = true
				rep.SyncFiles = append(rep.SyncFiles, x.path)
			}
			// atomic operations become scheduling points too
			if im.Path.Value == `"sync/atomic"` {
				im.Path.Value = strconv.Quote(vatomicImport)
				if im.Name == nil {
					im.Name = ast.NewIdent("atomic")
				}
				changed = true
				rep.SyncFiles = append(rep.SyncFiles, x.path)
			}
		}
		// 3. package variable wrapping
		if pinfo != nil {
			if n := wrapPVars(x.f, pinfo, rep); n > 0 {
				changed, needHook = true, true
			}
		}
		if !changed {
			continue
		}
		if needHook {
			addImport(x.f, hookImport)
		}
		var buf bytes.Buffer
		// drop existing build constraints, the overlay file carries its own
		buf.WriteString("//go:build verif && go1.18\n\n")
		var body bytes.Buffer
		if err := format.Node(&body, fset, x.f); err != nil {
			return fmt.Errorf("%s: %v", x.path, err)
		}
		buf.Write(stripBuildLines(body.Bytes()))
		rel := strings.ReplaceAll(strings.TrimPrefix(x.path, "/"), "/", "_")
		dst := filepath.Join(out, rel)
		if err := os.WriteFile(dst, buf.Bytes(), 0o644); err != nil {
			return err
		}
		replace[x.path] = dst
		rep.Files = append(rep.Files, x.path)
	}
	return nil
}

func stripBuildLines(src []byte) []byte {
	lines := bytes.Split(src, []byte("\n"))
	var outl [][]byte
	inHeader := true
	for _, l := range lines {
		t := bytes.TrimSpace(l)
		if inHeader {
			if bytes.HasPrefix(t, []byte("//go:build")) || bytes.HasPrefix(t, []byte("// +build")) {
				continue
			}
			if bytes.HasPrefix(t, []byte("package ")) {
				inHeader = false
			}
		}
		outl = append(outl, l)
	}
	return bytes.Join(outl, []byte("\n"))
}

func addImport(f *ast.File, path string) {
	for _, im := range f.Imports {
		if im.Path.Value == strconv.Quote(path) {
			return
		}
	}
	spec := &ast.ImportSpec{Path: &ast.BasicLit{Kind: token.STRING, Value: strconv.Quote(path)}}
	decl := &ast.GenDecl{Tok: token.IMPORT, Specs: []ast.Spec{spec}}
	f.Decls = append([]ast.Decl{decl}, f.Decls...)
	f.Imports = append(f.Imports, spec)
}

// hookMachine inserts Enter/Exit/EOF hooks into fd if it is a Ragel -G2 machine (has a
// `_test_eof` label). Returns the number of `_test_eofN` labels (machine states that can meet end
// of input), 0 if fd is not a machine.
func hookMachine(fd *ast.FuncDecl) int {
	var eofLabel *ast.LabeledStmt
	nStates := 0
	names := map[string]bool{}
	if fd.Type.Params != nil {
		for _, fl := range fd.Type.Params.List {
			for _, n := range fl.Names {
				names[n.Name] = true
			}
		}
	}
	ast.Inspect(fd.Body, func(n ast.Node) bool {
		switch v := n.(type) {
		case *ast.LabeledStmt:
			if v.Label.Name == "_test_eof" {
				eofLabel = v
			} else if eofN.MatchString(v.Label.Name) {
				nStates++
			}
		case *ast.AssignStmt:
			if v.Tok == token.DEFINE {
				for _, l := range v.Lhs {
					if id, ok := l.(*ast.Ident); ok {
						names[id.Name] = true
					}
				}
			}
		case *ast.ValueSpec:
			for _, id := range v.Names {
				names[id.Name] = true
			}
		}
		return true
	})
	if eofLabel == nil || !names["cs"] {
		return 0
	}
	blk, ok := eofLabel.Stmt.(*ast.BlockStmt)
	if !ok {
		return 0
	}
	if nStates == 0 {
		nStates = 1
	}
	fn := &ast.BasicLit{Kind: token.STRING, Value: strconv.Quote(fd.Name.Name)}
	var topE, stackE ast.Expr = &ast.BasicLit{Kind: token.INT, Value: "0"}, ast.NewIdent("nil")
	if names["top"] && names["stack"] {
		topE, stackE = ast.NewIdent("top"), ast.NewIdent("stack")
	}
	call := &ast.ExprStmt{X: &ast.CallExpr{
		Fun:  &ast.SelectorExpr{X: ast.NewIdent("verifhook"), Sel: ast.NewIdent("EOF")},
		Args: []ast.Expr{fn, ast.NewIdent("cs"), topE, stackE},
	}}
	blk.List = append([]ast.Stmt{call}, blk.List...)
	enter := &ast.ExprStmt{X: &ast.CallExpr{
		Fun:  &ast.SelectorExpr{X: ast.NewIdent("verifhook"), Sel: ast.NewIdent("Enter")},
		Args: []ast.Expr{fn},
	}}
	exit := &ast.DeferStmt{Call: &ast.CallExpr{
		Fun: &ast.SelectorExpr{X: ast.NewIdent("verifhook"), Sel: ast.NewIdent("Exit")},
	}}
	fd.Body.List = append([]ast.Stmt{enter, exit}, fd.Body.List...)
	return nStates + 1 // + the start state, which meets end of input only on empty input
}
