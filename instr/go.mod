module verifinstr

go 1.21
