#!/bin/bash
# Parallel regression over seeded changes WITHOUT touching /repo: each change is applied to its own
# scratch worktree (removed afterwards) and the unchanged machinery is pointed at it with VERIF_REPO;
# evidence and replays of these runs go to scratch directories, never to /verif/evidence.
# usage: seedpar.sh [-j N] [-t tier] [-a]  <seed-dir-name|path-to-dir-with-patch.diff>[:CHK[,CHK...]] ...
#   without :CHK the check recorded as caught_by[0] in meta.json is used (-a: every check in checks_run)
# output: one line per (seed, check):  <seed> <check> rc=<rc>   (rc=1 means caught)
J=5; TIER=quick; ALL=0
while getopts "j:t:a" o; do case $o in j) J=$OPTARG;; t) TIER=$OPTARG;; a) ALL=1;; esac; done; shift $((OPTIND-1))
export GOFLAGS=-mod=mod GOPROXY=off GOSUMDB=off GOTOOLCHAIN=local
ROOT=/tmp/sp; mkdir -p $ROOT
git -C /repo worktree prune
one() {
  spec=$1; tier=$2; all=$3
  seed=${spec%%:*}; chks=""; [ "$spec" != "$seed" ] && chks=${spec#*:}
  dir=$seed; [ -d "$dir" ] || dir=/verif/seeded/$seed
  name=$(basename $dir)-$$-$RANDOM
  if [ -z "$chks" ]; then
    if [ "$all" = 1 ]; then chks=$(python3 -c "import json;print(','.join(json.load(open('$dir/meta.json'))['checks_run']))")
    else chks=$(python3 -c "import json;print((json.load(open('$dir/meta.json')).get('caught_by') or [''])[0])"); fi
  fi
  patch=$dir/patch.diff; [ -f $dir/patch.rebased.diff ] && patch=$dir/patch.rebased.diff
  WT=$ROOT/$name
  git -C /repo worktree add --detach $WT HEAD >/dev/null 2>&1 || { echo "$(basename $dir) - worktree-failed"; return; }
  if ! git -C $WT apply $patch 2>/dev/null; then echo "$(basename $dir) - patch-does-not-apply"; git -C /repo worktree remove --force $WT; return; fi
  for c in ${chks//,/ }; do
    out=$(VERIF_REPO=$WT VERIF_EVIDENCE_DIR=$WT.ev VERIF_REPLAYS_DIR=$WT.rp /verif/check $c $tier 2>&1); rc=$?
    echo "$(basename $dir) $c rc=$rc $(echo "$out" | grep -A1 '^VIOLATION' | head -2 | tr '\n' ' ' | cut -c1-300)"
    [ -n "${SEEDPAR_LOG:-}" ] && { mkdir -p $SEEDPAR_LOG; echo "$out" > $SEEDPAR_LOG/$(basename $dir)-$c.log; }
  done
  git -C /repo worktree remove --force $WT 2>/dev/null; rm -rf $WT $WT.ev $WT.rp
}
export -f one; export ROOT
printf '%s\n' "$@" | xargs -P $J -I{} bash -c "one {} $TIER $ALL"
