#!/bin/bash
# Regression over the kept seeded changes: each one applied to /repo must make its first
# catching check (meta.json caught_by[0]) exit 1; the tree is restored after each.
cd /verif
fail=0; n=0
for d in seeded/*/; do
  id=$(basename $d)
  chk=$(python3 -c "import json,sys; m=json.load(open('$d/meta.json')); print((m.get('caught_by') or [''])[0])")
  [ -z "$chk" ] && { echo "$id: no catching check recorded"; continue; }
  n=$((n+1))
  git -C /repo apply /verif/$d/patch.diff 2>/dev/null || { echo "$id: patch does not apply to current /repo"; fail=$((fail+1)); continue; }
  ./check $chk quick >/tmp/seedregress.run 2>&1; rc=$?
  git -C /repo checkout -- . ; git -C /repo clean -fdq
  if [ $rc -eq 1 ]; then echo "$id: caught by $chk"; else echo "$id: NOT caught by $chk (rc=$rc)"; fail=$((fail+1)); fi
done
git -C /verif checkout -- evidence 2>/dev/null
echo "seeds=$n failures=$fail"
