#!/bin/bash
# usage: seedrun.sh <patch.diff> <ID> [ID...]   — apply a seeded change to /repo, run the quick checks, undo.
patch=$1; shift
cd /repo || exit 2
git diff --quiet || { echo "repo dirty"; exit 2; }
git apply "$patch" || { echo "patch does not apply"; exit 2; }
for id in "$@"; do
  out=$(cd /verif && ./check $id ${TIER:-quick} 2>&1); rc=$?
  echo "== $id rc=$rc $(echo "$out" | grep -c '^VIOLATION') violation lines"
  echo "$out" | grep -A3 '^VIOLATION' | head -${SHOW:-8}
done
git -C /repo checkout -- . ; git -C /repo clean -fdq
# evidence files were rewritten by runs on a modified tree: restore committed ones
git -C /verif checkout -- evidence 2>/dev/null
