#!/usr/bin/env python3
"""Regenerates /verif/MANIFEST.json from the table below (kept valid at all times)."""
import json, os
V = '/verif'
props = [json.loads(l) for l in open(V + '/properties.jsonl')]

# id -> (category, technique, text, note, design_ref)
CLAIMED = {}
def claim(id, cat, tech, text, note, ref):
    CLAIMED[id] = (cat, tech, text, note, ref)

exec(open(V + '/tools/claims.py').read())

checks = []
for p in props:
    id = p['id']
    if id not in CLAIMED:
        continue
    cat, tech, text, note, ref = CLAIMED[id]
    checks.append({
        "property_id": id,
        "quick_cmd": "./check %s quick" % id,
        "thorough_cmd": "./check %s thorough" % id,
        "evidence_file": "/verif/evidence/%s.json" % id,
        "replay_cmd_template": "./check replay {path}",
        "engine": "harness",
        "level_claimed": {"category": cat, "text": text, "design_ref": ref},
        "level_note": note,
        "technique": tech,
    })
na = []
NA = {}
if os.path.exists(V + '/tools/not_applicable.json'):
    NA = json.load(open(V + '/tools/not_applicable.json'))
for p in props:
    if p['id'] not in CLAIMED:
        na.append({"property_id": p['id'], "reason": NA.get(p['id'], "check not built yet (build in progress)")})
m = {
    "version": 1,
    "setup_cmd": "./check setup",
    "hooks": {
        "guard": "verif",
        "enable": "go build -tags verif -overlay <overlay.json generated at check time by /verif/bin/instr from /repo's working tree>; no hook source is committed to /repo",
        "baseline_off_cmd": "cd /repo && GOFLAGS=-mod=mod GOPROXY=off GOSUMDB=off GOTOOLCHAIN=local go test -vet=off -count=1 ./...",
        "source_commits": [],
        "add_only": True,
    },
    "engines": [
        {"name": "harness", "path": "/verif/harness", "serves_properties": sorted(CLAIMED.keys()),
         "kind_free_text": "hand-written explicit-state / stateless explorers over the real rjson code (E1 prefix BFS over parser configurations x 256 bytes, choice explorer for handler/pool answers, E2 bounded-exhaustive documents, E3 call-history BFS to closure, E4 cooperative scheduler, E5 complete finite value domains), reference models cross-checked against encoding/json"},
        {"name": "instr", "path": "/verif/instr", "serves_properties": sorted(CLAIMED.keys()),
         "kind_free_text": "go/ast instrumenter producing a go build -overlay from the working tree (machine EOF hooks, sync.Pool / Mutex / Once and sync/atomic shims, package-variable access points)"},
    ],
    "checks": checks,
    "not_applicable": na,
    "notes": "All checks rebuild the harness against /repo's working tree through an overlay; see DESIGN.md. Known findings: /verif/known_findings.txt.",
}
json.dump(m, open(V + '/MANIFEST.json', 'w'), indent=1)
print("claimed:", sorted(CLAIMED.keys()))
