claim('C01', 'model_checking', 'explicit-state BFS over (skipValue machine configuration x reference PDA state) x all 256 next bytes, real code vs reference vs json.Valid; deep-nesting family at the limit',
      'Every reachable product state of the real skip machine and the RFC 8259 reference automaton (nesting <= D) is extended by every byte value and Valid is compared with the reference and json.Valid for nil/fresh/used buffers; a single wrong transition in any state is hit with certainty, which a corpus cannot do.',
      'Bounded: nesting D inside the BFS (2 quick / 4 thorough) plus periodic deep families at 9998..10002; saturated digit/whitespace counters; reference PDA is trusted only where it agrees with encoding/json (checked on every node).', '5 C01')
claim('C02', 'model_checking', 'explicit-state BFS over (skipValue machine configuration x reference PDA state) x all 256 next bytes; (ok, offset) vs reference vs json.Decoder',
      'Same state space as C01; on every node the (success, offset) pair of SkipValue is compared with the reference automaton and with json.Decoder, so every value in every context is followed by every possible byte.',
      'Same bounds as C01.', '5 C02')
claim('C05', 'exploration', 'explicit-state BFS over the integer-token automaton (exact digit counts) x 256 bytes + complete enumeration of finite windows round every bound; oracle math/big',
      'All six readers and Decode forms on every (state, byte) pair of the number grammar with exact digit counts 0..23, recovery exploration past forbidden bytes, and complete windows (both signs) round 2^31, 2^32, 2^63, 2^64, 10^17..10^20 and the 18/19/20-digit switch-overs.',
      'Values outside the enumerated windows are reached only with the digits of shortest witnesses; 32-bit int/uint branch only under GOARCH=386 (thorough).', '5 C05')
claim('C06', 'model_checking', 'explicit-state BFS over (string machines configuration x reference string state incl. pending surrogate) x 256 bytes; complete sweeps of all \\u units and surrogate pairs; oracle reference unescaper = encoding/json modulo UTF-8 sanitising',
      'Every state of the fast path and of both escape machines is extended by every byte value with exact result bytes compared; the 65,536 code units and 2048x2048 surrogate pairs are enumerated completely.',
      'String length in BFS bounded by state closure (saturating), run-length effects by the pumping pass; reference unescaper trusted where it agrees with encoding/json (checked on every node).', '5 C06')
claim('C11', 'model_checking', 'explicit-state BFS over the product (skipValueFast configuration, skipValue configuration, reference PDA) x 256 bytes',
      'Wherever the reference/SkipValue succeeds SkipValueFast must succeed with the same offset, checked on every product state x byte with nil/fresh/used buffers.',
      'Nesting bound D; deep family at 5000/10000.', '5 C11')
claim('C12', 'model_checking', 'explicit-state BFS over scalar-token states x 256 bytes x 10 Decode functions x {zero, sentinel} target',
      'On every node of the scalar/null explorations every Decode function is run with two initial targets and compared with its reader plus the null/unchanged rule.',
      'Reader correctness itself is C04/C05/C06/C13; containers are not targets of Decode functions.', '5 C12')
claim('C13', 'model_checking', 'explicit-state BFS over whitespace-prefix and literal-machine states x 256 bytes; complete 256-entry table check; all Read families on every node',
      'Every byte value after every whitespace-prefix state and in every state of the literal machines, against a table typed in from RFC 8259; type exclusivity of all Read families on every scalar node.',
      'Whitespace run length saturates at 3 in the key (pumping covers longer runs).', '5 C13')
claim('C04', 'exploration', 'explicit-state BFS over the number-token automaton x 256 bytes (syntax/offset) + complete enumeration of stated finite literal families + audit of every table word against math/big; oracle exact rational rounding and strconv.ParseFloat',
      'The scanner is decided per (state, byte); the value function on complete finite families: all <=k-digit literals x all exponents, all binades x boundary mantissas x halfway variants (incl. >800 digits), thresholds, all 696 table rows x mantissa sweeps; every table constant is recomputed.',
      'The set of number literals is infinite: correct rounding outside the enumerated families is not decided (needs a proof). strconv deviates from exact rounding for >800-digit integer parts; exact rounding is the deciding oracle.', '5 C04')
