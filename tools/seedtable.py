#!/usr/bin/env python3
"""Generates /verif/SEEDED.md from /verif/seeded/*/meta.json."""
import json, glob, os
rows = []
for f in sorted(glob.glob('/verif/seeded/*/meta.json')):
    m = json.load(open(f))
    d = os.path.basename(os.path.dirname(f))
    c = m['confirmed']
    ok = ('ok' in c['repo_suite_with_change'] and 'FAIL' not in c['repo_suite_with_change'], 'FAIL' in c['demo_with_change'] or 'panic' in c['demo_with_change'].lower(), c['demo_without_change'].startswith('ok'))
    need = m['needs_to_manifest'].strip().split('\n')
    first = ''
    for l in need:
        l = l.strip('-* #').strip()
        if len(l) > 30:
            first = l
            break
    rows.append((d, m['breaks_property'], 'yes' if all(ok) else 'NO %s' % (ok,), ' '.join(m['caught_by']) or '—', ' '.join(m['checks_run']), first[:220]))
out = ['# Seeded property-breaking changes', '',
       'Each change was written by an independent sub-agent that saw only the property text and a scratch worktree; it compiles, passes the repository\'s own suite, and comes with a demonstration that fails with it and passes without it (all three re-confirmed by `tools/seedverify.sh` in a scratch worktree of the repaired tree). "caught by" lists the quick checks that exit 1 with it applied to /repo.', '',
       '| seed | property | confirmed (suite ok / demo fails with / passes without) | caught by (quick) | checks run | what it is |', '|---|---|---|---|---|---|']
for r in rows:
    out.append('| %s | %s | %s | %s | %s | %s |' % r)
open('/verif/SEEDED.md', 'w').write('\n'.join(out) + '\n')
print(len(rows), 'seeds;', sum(1 for r in rows if r[3] != '—'), 'caught')
