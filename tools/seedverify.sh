#!/bin/bash
# usage: seedverify.sh <ID> <A|B> [check ids...]
# Confirms a seeded change in a scratch worktree of /repo HEAD: (1) applies, (2) the repository's
# suite passes with it, (3) the demo fails with it, (4) the demo passes without it; then runs the
# given checks against it in /repo (applied and undone) and writes /verif/seeded/<ID><v>/.
ID=$1; V=$2; shift 2
SRC=${SEEDROOT:-/tmp/seed/out}/$ID/$V
DV=$V; if [ "${WAVE:-1}" = "2" ]; then [ "$V" = "A" ] && DV=C; [ "$V" = "B" ] && DV=D; fi
if [ "${WAVE:-1}" = "3" ]; then [ "$V" = "A" ] && DV=E; [ "$V" = "B" ] && DV=F; fi
if [ "${WAVE:-1}" = "4" ]; then [ "$V" = "A" ] && DV=G; [ "$V" = "B" ] && DV=H; fi
if [ "${WAVE:-1}" = "5" ]; then [ "$V" = "A" ] && DV=I; [ "$V" = "B" ] && DV=J; fi
if [ "${WAVE:-1}" = "6" ]; then [ "$V" = "A" ] && DV=K; [ "$V" = "B" ] && DV=L; fi
if [ "${WAVE:-1}" = "7" ]; then [ "$V" = "A" ] && DV=M; [ "$V" = "B" ] && DV=N; fi
if [ "${WAVE:-1}" = "8" ]; then [ "$V" = "A" ] && DV=O; [ "$V" = "B" ] && DV=P; fi
PATCH=$SRC/patch.diff; [ -f $SRC/patch.rebased.diff ] && PATCH=$SRC/patch.rebased.diff
export GOFLAGS=-mod=mod GOPROXY=off GOSUMDB=off GOTOOLCHAIN=local
WT=/tmp/sv/$ID$V; rm -rf $WT; git -C /repo worktree prune; git -C /repo worktree add --detach $WT HEAD >/dev/null 2>&1 || { echo "worktree failed"; exit 2; }
cd $WT
res_apply=ok; git apply $PATCH 2>/dev/null || { patch -p1 --fuzz=3 < $PATCH >/dev/null 2>&1 && git diff > $SRC/patch.rebased.diff && PATCH=$SRC/patch.rebased.diff; } || res_apply=FAILED
rm -f *.orig *.rej internal/fp/*.orig internal/fp/*.rej
demo=$SRC/demo_test.go
pkgdir=.; grep -q '^package fp' $demo && pkgdir=internal/fp
tests=$(grep -oE '^func (Test[A-Za-z0-9_]+)' $demo | awk '{print $2}' | paste -sd'|')
suite=$(go test -vet=off -count=1 ./... 2>&1 | tail -3 | tr '\n' ' ')
cp $demo $pkgdir/zz_seed_demo_test.go
RACE=""; [ "$ID" = "C18" ] && RACE="-race"
demo_with=$(cd $pkgdir && timeout 900 env ${DEMO_ENV:-X=1} go test $RACE -vet=off -count=1 -run "^($tests)\$" . 2>&1 | tail -1)
git checkout -- . 2>/dev/null
demo_without=$(cd $pkgdir && timeout 900 env ${DEMO_ENV:-X=1} go test $RACE -vet=off -count=1 -run "^($tests)\$" . 2>&1 | tail -1)
rm -f $pkgdir/zz_seed_demo_test.go
echo "[$ID/$V] apply=$res_apply"
echo "  suite with change:   $suite"
echo "  demo with change:    $demo_with"
echo "  demo without change: $demo_without"
caught=""
detail=""
if [ $res_apply = ok ]; then
  # the checks run against the scratch worktree with the change applied (VERIF_REPO); /repo is untouched
  git apply $PATCH 2>/dev/null || patch -p1 --fuzz=3 < $PATCH >/dev/null 2>&1
  rm -f *.orig *.rej internal/fp/*.orig internal/fp/*.rej
  for c in "$@"; do
    out=$(VERIF_REPO=$WT VERIF_EVIDENCE_DIR=$WT.ev VERIF_REPLAYS_DIR=$WT.rp /verif/check $c ${TIER:-quick} 2>&1); rc=$?
    if [ $rc -eq 1 ]; then caught="$caught $c"; detail="$detail$(echo "$out" | grep -A3 '^VIOLATION' | head -4 | cut -c1-240)
"; fi
    echo "  check $c: rc=$rc $(echo "$out" | grep -c '^VIOLATION') violation lines"
  done
fi
cd /; git -C /repo worktree remove --force $WT; rm -rf $WT.ev $WT.rp
D=/verif/seeded/$ID$DV; mkdir -p $D
cp $PATCH $D/patch.diff; cp $demo $D/demo_test.go; cp $SRC/notes.md $D/notes.md 2>/dev/null
NOTES_FILE=$SRC/notes.md python3 - "$ID" "$DV" "$res_apply" "$suite" "$demo_with" "$demo_without" "$caught" "$detail" "$*" <<'PY'
import json,sys
id,v,ap,suite,dw,dwo,caught,detail,ran=sys.argv[1:10]
import os
notes=open(os.environ.get('NOTES_FILE','/dev/null')).read()
json.dump({"breaks_property":id,"variant":v,"source":"independent sub-agent given only the property text and a scratch worktree","needs_to_manifest":notes[:1500],
 "confirmed":{"patch_applies_to_repo_head":ap,"repo_suite_with_change":suite.strip(),"demo_with_change":dw.strip(),"demo_without_change":dwo.strip()},
 "checks_run":ran.split(),"caught_by":caught.split(),"first_violation":detail.strip()},open('/verif/seeded/%s%s/meta.json'%(id,v),'w'),indent=1)
PY
echo "  caught by:$caught"
