//go:build verif && go1.18

// Package vatomic is a virtual package added by the /verif overlay. The instrumenter rewrites the
// import of "sync/atomic" to this package: every atomic operation is first a scheduling point of
// the cooperative scheduler (Point), then the real operation. Running freely (Point == nil) it is
// sync/atomic.
package vatomic

import (
	"sync/atomic"
	"unsafe"
)

// Point, when non-nil, is called before every atomic operation.
var Point func()

func pt() {
	if Point != nil {
		Point()
	}
}

func LoadInt32(addr *int32) int32             { pt(); return atomic.LoadInt32(addr) }
func StoreInt32(addr *int32, val int32)       { pt(); atomic.StoreInt32(addr, val) }
func AddInt32(addr *int32, delta int32) int32 { pt(); return atomic.AddInt32(addr, delta) }
func SwapInt32(addr *int32, new int32) int32  { pt(); return atomic.SwapInt32(addr, new) }
func CompareAndSwapInt32(addr *int32, old, new int32) bool {
	pt()
	return atomic.CompareAndSwapInt32(addr, old, new)
}
func AndInt32(addr *int32, mask int32) int32 { pt(); return atomic.AndInt32(addr, mask) }
func OrInt32(addr *int32, mask int32) int32  { pt(); return atomic.OrInt32(addr, mask) }

type Int32 struct{ v atomic.Int32 }

func (x *Int32) Load() int32                        { pt(); return x.v.Load() }
func (x *Int32) Store(val int32)                    { pt(); x.v.Store(val) }
func (x *Int32) Add(delta int32) int32              { pt(); return x.v.Add(delta) }
func (x *Int32) Swap(new int32) int32               { pt(); return x.v.Swap(new) }
func (x *Int32) CompareAndSwap(old, new int32) bool { pt(); return x.v.CompareAndSwap(old, new) }
func (x *Int32) And(mask int32) int32               { pt(); return x.v.And(mask) }
func (x *Int32) Or(mask int32) int32                { pt(); return x.v.Or(mask) }

func LoadInt64(addr *int64) int64             { pt(); return atomic.LoadInt64(addr) }
func StoreInt64(addr *int64, val int64)       { pt(); atomic.StoreInt64(addr, val) }
func AddInt64(addr *int64, delta int64) int64 { pt(); return atomic.AddInt64(addr, delta) }
func SwapInt64(addr *int64, new int64) int64  { pt(); return atomic.SwapInt64(addr, new) }
func CompareAndSwapInt64(addr *int64, old, new int64) bool {
	pt()
	return atomic.CompareAndSwapInt64(addr, old, new)
}
func AndInt64(addr *int64, mask int64) int64 { pt(); return atomic.AndInt64(addr, mask) }
func OrInt64(addr *int64, mask int64) int64  { pt(); return atomic.OrInt64(addr, mask) }

type Int64 struct{ v atomic.Int64 }

func (x *Int64) Load() int64                        { pt(); return x.v.Load() }
func (x *Int64) Store(val int64)                    { pt(); x.v.Store(val) }
func (x *Int64) Add(delta int64) int64              { pt(); return x.v.Add(delta) }
func (x *Int64) Swap(new int64) int64               { pt(); return x.v.Swap(new) }
func (x *Int64) CompareAndSwap(old, new int64) bool { pt(); return x.v.CompareAndSwap(old, new) }
func (x *Int64) And(mask int64) int64               { pt(); return x.v.And(mask) }
func (x *Int64) Or(mask int64) int64                { pt(); return x.v.Or(mask) }

func LoadUint32(addr *uint32) uint32              { pt(); return atomic.LoadUint32(addr) }
func StoreUint32(addr *uint32, val uint32)        { pt(); atomic.StoreUint32(addr, val) }
func AddUint32(addr *uint32, delta uint32) uint32 { pt(); return atomic.AddUint32(addr, delta) }
func SwapUint32(addr *uint32, new uint32) uint32  { pt(); return atomic.SwapUint32(addr, new) }
func CompareAndSwapUint32(addr *uint32, old, new uint32) bool {
	pt()
	return atomic.CompareAndSwapUint32(addr, old, new)
}
func AndUint32(addr *uint32, mask uint32) uint32 { pt(); return atomic.AndUint32(addr, mask) }
func OrUint32(addr *uint32, mask uint32) uint32  { pt(); return atomic.OrUint32(addr, mask) }

type Uint32 struct{ v atomic.Uint32 }

func (x *Uint32) Load() uint32                        { pt(); return x.v.Load() }
func (x *Uint32) Store(val uint32)                    { pt(); x.v.Store(val) }
func (x *Uint32) Add(delta uint32) uint32             { pt(); return x.v.Add(delta) }
func (x *Uint32) Swap(new uint32) uint32              { pt(); return x.v.Swap(new) }
func (x *Uint32) CompareAndSwap(old, new uint32) bool { pt(); return x.v.CompareAndSwap(old, new) }
func (x *Uint32) And(mask uint32) uint32              { pt(); return x.v.And(mask) }
func (x *Uint32) Or(mask uint32) uint32               { pt(); return x.v.Or(mask) }

func LoadUint64(addr *uint64) uint64              { pt(); return atomic.LoadUint64(addr) }
func StoreUint64(addr *uint64, val uint64)        { pt(); atomic.StoreUint64(addr, val) }
func AddUint64(addr *uint64, delta uint64) uint64 { pt(); return atomic.AddUint64(addr, delta) }
func SwapUint64(addr *uint64, new uint64) uint64  { pt(); return atomic.SwapUint64(addr, new) }
func CompareAndSwapUint64(addr *uint64, old, new uint64) bool {
	pt()
	return atomic.CompareAndSwapUint64(addr, old, new)
}
func AndUint64(addr *uint64, mask uint64) uint64 { pt(); return atomic.AndUint64(addr, mask) }
func OrUint64(addr *uint64, mask uint64) uint64  { pt(); return atomic.OrUint64(addr, mask) }

type Uint64 struct{ v atomic.Uint64 }

func (x *Uint64) Load() uint64                        { pt(); return x.v.Load() }
func (x *Uint64) Store(val uint64)                    { pt(); x.v.Store(val) }
func (x *Uint64) Add(delta uint64) uint64             { pt(); return x.v.Add(delta) }
func (x *Uint64) Swap(new uint64) uint64              { pt(); return x.v.Swap(new) }
func (x *Uint64) CompareAndSwap(old, new uint64) bool { pt(); return x.v.CompareAndSwap(old, new) }
func (x *Uint64) And(mask uint64) uint64              { pt(); return x.v.And(mask) }
func (x *Uint64) Or(mask uint64) uint64               { pt(); return x.v.Or(mask) }

func LoadUintptr(addr *uintptr) uintptr               { pt(); return atomic.LoadUintptr(addr) }
func StoreUintptr(addr *uintptr, val uintptr)         { pt(); atomic.StoreUintptr(addr, val) }
func AddUintptr(addr *uintptr, delta uintptr) uintptr { pt(); return atomic.AddUintptr(addr, delta) }
func SwapUintptr(addr *uintptr, new uintptr) uintptr  { pt(); return atomic.SwapUintptr(addr, new) }
func CompareAndSwapUintptr(addr *uintptr, old, new uintptr) bool {
	pt()
	return atomic.CompareAndSwapUintptr(addr, old, new)
}
func AndUintptr(addr *uintptr, mask uintptr) uintptr { pt(); return atomic.AndUintptr(addr, mask) }
func OrUintptr(addr *uintptr, mask uintptr) uintptr  { pt(); return atomic.OrUintptr(addr, mask) }

type Uintptr struct{ v atomic.Uintptr }

func (x *Uintptr) Load() uintptr                        { pt(); return x.v.Load() }
func (x *Uintptr) Store(val uintptr)                    { pt(); x.v.Store(val) }
func (x *Uintptr) Add(delta uintptr) uintptr            { pt(); return x.v.Add(delta) }
func (x *Uintptr) Swap(new uintptr) uintptr             { pt(); return x.v.Swap(new) }
func (x *Uintptr) CompareAndSwap(old, new uintptr) bool { pt(); return x.v.CompareAndSwap(old, new) }
func (x *Uintptr) And(mask uintptr) uintptr             { pt(); return x.v.And(mask) }
func (x *Uintptr) Or(mask uintptr) uintptr              { pt(); return x.v.Or(mask) }

func LoadPointer(addr *unsafe.Pointer) unsafe.Pointer       { pt(); return atomic.LoadPointer(addr) }
func StorePointer(addr *unsafe.Pointer, val unsafe.Pointer) { pt(); atomic.StorePointer(addr, val) }
func SwapPointer(addr *unsafe.Pointer, new unsafe.Pointer) unsafe.Pointer {
	pt()
	return atomic.SwapPointer(addr, new)
}
func CompareAndSwapPointer(addr *unsafe.Pointer, old, new unsafe.Pointer) bool {
	pt()
	return atomic.CompareAndSwapPointer(addr, old, new)
}

type Bool struct{ v atomic.Bool }

func (x *Bool) Load() bool                        { pt(); return x.v.Load() }
func (x *Bool) Store(val bool)                    { pt(); x.v.Store(val) }
func (x *Bool) Swap(new bool) bool                { pt(); return x.v.Swap(new) }
func (x *Bool) CompareAndSwap(old, new bool) bool { pt(); return x.v.CompareAndSwap(old, new) }

type Pointer[T any] struct{ v atomic.Pointer[T] }

func (x *Pointer[T]) Load() *T                        { pt(); return x.v.Load() }
func (x *Pointer[T]) Store(val *T)                    { pt(); x.v.Store(val) }
func (x *Pointer[T]) Swap(new *T) *T                  { pt(); return x.v.Swap(new) }
func (x *Pointer[T]) CompareAndSwap(old, new *T) bool { pt(); return x.v.CompareAndSwap(old, new) }

type Value struct{ v atomic.Value }

func (x *Value) Load() any                        { pt(); return x.v.Load() }
func (x *Value) Store(val any)                    { pt(); x.v.Store(val) }
func (x *Value) Swap(new any) any                 { pt(); return x.v.Swap(new) }
func (x *Value) CompareAndSwap(old, new any) bool { pt(); return x.v.CompareAndSwap(old, new) }
