//go:build verif

// Package vsync is a virtual package added by the /verif overlay. The instrumenter rewrites the
// import of "sync" in files that use sync.Pool to this package, which makes the pool
// deterministic (LIFO), inspectable, and — when a Chooser is installed — turns every Get on a
// non-empty pool into an explicit environment choice (recycled object vs. miss), because the real
// sync.Pool may drop objects at any GC.
package vsync

import "sync"

type (
	Mutex     = sync.Mutex
	RWMutex   = sync.RWMutex
	WaitGroup = sync.WaitGroup
	Once      = sync.Once
	Map       = sync.Map
	Cond      = sync.Cond
	Locker    = sync.Locker
)

// Chooser, when non-nil, is asked at every Get on a non-empty pool: 0 = hit (default), 1 = miss.
var Chooser func(n int) int

// Point, when non-nil, is called before every pool operation (a scheduling point for the
// cooperative scheduler). op is "Get" or "Put".
var Point func(p *Pool, op string)

// Gets / Hits / Puts count pool traffic (evidence that recycling paths were exercised).
var Gets, Hits, Puts int

// Pool mirrors the API of sync.Pool.
type Pool struct {
	New   func() interface{}
	Items []interface{}
}

func (p *Pool) Get() interface{} {
	if Point != nil {
		Point(p, "Get")
	}
	Gets++
	if n := len(p.Items); n > 0 {
		miss := false
		if Chooser != nil {
			miss = Chooser(2) == 1
		}
		if !miss {
			x := p.Items[n-1]
			p.Items[n-1] = nil
			p.Items = p.Items[:n-1]
			Hits++
			return x
		}
	}
	if p.New != nil {
		return p.New()
	}
	return nil
}

func (p *Pool) Put(x interface{}) {
	if Point != nil {
		Point(p, "Put")
	}
	Puts++
	if x == nil {
		return
	}
	p.Items = append(p.Items, x)
}
