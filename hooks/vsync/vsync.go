//go:build verif

// Package vsync is a virtual package added by the /verif overlay. The instrumenter rewrites the
// import of "sync" in files that use sync.Pool to this package, which makes the pool
// deterministic (LIFO), inspectable, and — when a Chooser is installed — turns every Get on a
// non-empty pool into an explicit environment choice (recycled object vs. miss), because the real
// sync.Pool may drop objects at any GC.
package vsync

import "sync"

type (
	RWMutex   = sync.RWMutex
	WaitGroup = sync.WaitGroup
	Map       = sync.Map
	Cond      = sync.Cond
	Locker    = sync.Locker
)

// Chooser, when non-nil, is asked at every Get on a non-empty pool: 0 = hit (default), 1 = miss.
var Chooser func(n int) int

// Point, when non-nil, is called before every pool operation (a scheduling point for the
// cooperative scheduler). op is "Get" or "Put".
var Point func(p *Pool, op string)

// Gets / Hits / Puts count pool traffic (evidence that recycling paths were exercised).
var Gets, Hits, Puts int

// Pool mirrors the API of sync.Pool.
type Pool struct {
	New   func() interface{}
	Items []interface{}
}

func (p *Pool) Get() interface{} {
	if Point != nil {
		Point(p, "Get")
	}
	Gets++
	if n := len(p.Items); n > 0 {
		miss := false
		if Chooser != nil {
			miss = Chooser(2) == 1
		}
		if !miss {
			x := p.Items[n-1]
			p.Items[n-1] = nil
			p.Items = p.Items[:n-1]
			Hits++
			return x
		}
	}
	if p.New != nil {
		return p.New()
	}
	return nil
}

func (p *Pool) Put(x interface{}) {
	if Point != nil {
		Point(p, "Put")
	}
	Puts++
	if x == nil {
		return
	}
	p.Items = append(p.Items, x)
}

// Yield, when non-nil (cooperative scheduler active), is called by a goroutine that cannot make
// progress (mutex held by a suspended goroutine): the scheduler must switch to another goroutine.
var Yield func()

// LockOp, when non-nil, is told about every Lock / Unlock (lockset tracking for the access log).
var LockOp func(m *Mutex, lock bool)

// Mutex is sync.Mutex when running freely; under the cooperative scheduler Lock is a
// scheduling point and waiting is made visible (yield instead of blocking the only running
// thread).
type Mutex struct {
	mu   sync.Mutex
	held bool
}

func (m *Mutex) Lock() {
	if Yield == nil {
		m.mu.Lock()
		return
	}
	for m.held {
		Yield()
	}
	m.held = true
	if LockOp != nil {
		LockOp(m, true)
	}
}

func (m *Mutex) Unlock() {
	if Yield == nil {
		m.mu.Unlock()
		return
	}
	m.held = false
	if LockOp != nil {
		LockOp(m, false)
	}
}

func (m *Mutex) TryLock() bool {
	if Yield == nil {
		return m.mu.TryLock()
	}
	if m.held {
		return false
	}
	m.held = true
	if LockOp != nil {
		LockOp(m, true)
	}
	return true
}

// InOnce counts active Once.Do initialisers (accesses made inside them are initialisation that
// every later reader is ordered after, not racing writes).
var InOnce int

// Once is sync.Once when running freely; under the cooperative scheduler it runs the function
// inline exactly once (single running thread) and marks the initialisation window.
type Once struct {
	once sync.Once
	done bool
}

func (o *Once) Do(f func()) {
	if Yield == nil {
		o.once.Do(f)
		return
	}
	if o.done {
		return
	}
	o.done = true
	InOnce++
	defer func() { InOnce-- }()
	o.once.Do(f)
}
