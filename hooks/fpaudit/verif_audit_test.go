//go:build verif

package fp

// In-package audit of the float conversion tables, added to internal/fp by the /verif overlay
// and run with `go test -overlay`. Every table word is recomputed with math/big.

import (
	"fmt"
	"math"
	"math/big"
	"strings"
	"testing"
)

func TestVerifTableAudit(t *testing.T) {
	bad := 0
	report := func(format string, a ...interface{}) {
		bad++
		if bad <= 20 {
			fmt.Printf("AUDIT-MISMATCH "+format+"\n", a...)
		}
	}
	// detailedPowersOfTen[i] = the 128 most significant bits of 10^q (q = i + min), truncated
	// (exact for q in [0, 55]).
	n := 0
	for i, row := range detailedPowersOfTen {
		q := i + detailedPowersOfTenMinExp10
		var num, den *big.Int
		if q >= 0 {
			num = new(big.Int).Exp(big.NewInt(10), big.NewInt(int64(q)), nil)
			den = big.NewInt(1)
		} else {
			num = big.NewInt(1)
			den = new(big.Int).Exp(big.NewInt(10), big.NewInt(int64(-q)), nil)
		}
		// scale so that floor(num*2^s/den) has exactly 128 bits
		s := 128 - (num.BitLen() - den.BitLen())
		var v *big.Int
		for {
			a := new(big.Int).Set(num)
			b := new(big.Int).Set(den)
			if s >= 0 {
				a.Lsh(a, uint(s))
			} else {
				b.Lsh(b, uint(-s))
			}
			v = new(big.Int).Quo(a, b)
			if v.BitLen() > 128 {
				s--
				continue
			}
			if v.BitLen() < 128 {
				s++
				continue
			}
			break
		}
		hi := new(big.Int).Rsh(v, 64).Uint64()
		lo := new(big.Int).And(v, new(big.Int).SetUint64(math.MaxUint64)).Uint64()
		n += 2
		if row[1] != hi {
			report("detailedPowersOfTen[1e%d] high word: table %#x recomputed %#x", q, row[1], hi)
		}
		if row[0] != lo {
			report("detailedPowersOfTen[1e%d] low word: table %#x recomputed %#x", q, row[0], lo)
		}
	}
	if len(detailedPowersOfTen) != detailedPowersOfTenMaxExp10-detailedPowersOfTenMinExp10+1 {
		report("detailedPowersOfTen has %d rows for exponent range [%d,%d]", len(detailedPowersOfTen), detailedPowersOfTenMinExp10, detailedPowersOfTenMaxExp10)
	}
	// float64pow10[i] == 10^i exactly
	for i, f := range float64pow10 {
		n++
		want, _ := new(big.Float).SetInt(new(big.Int).Exp(big.NewInt(10), big.NewInt(int64(i)), nil)).Float64()
		if f != want {
			report("float64pow10[%d] = %v want %v", i, f, want)
		}
	}
	// powtab[i] = largest k with 2^k <= 10^i (so that shifting right by k keeps >= 1 digit) —
	// audited against the defining inequality 2^powtab[i] <= 10^i < 2^(powtab[i]+1)... the
	// strconv table is {1, 3, 6, 9, 13, 16, 19, 23, 26}: floor(i*log2(10)) except the first entry.
	for i, k := range powtab {
		n++
		want := int(math.Floor(float64(i) * math.Log2(10)))
		if i == 0 {
			want = 1
		}
		if k != want {
			report("powtab[%d] = %d want %d", i, k, want)
		}
	}
	// leftcheats[i] = {number of decimal digits added by <<i when the prefix >= 5^i's digits, digits of 5^i}
	for i, lc := range leftcheats {
		n++
		if i == 0 {
			if lc.delta != 0 || lc.cutoff != "" {
				report("leftcheats[0] = %+v", lc)
			}
			continue
		}
		p5 := new(big.Int).Exp(big.NewInt(5), big.NewInt(int64(i)), nil).String()
		p2 := new(big.Int).Lsh(big.NewInt(1), uint(i)).String()
		if lc.cutoff != p5 || lc.delta != len(p2) {
			report("leftcheats[%d] = {%d,%s} want {%d,%s}", i, lc.delta, lc.cutoff, len(p2), p5)
		}
	}
	if len(leftcheats) < 61 {
		report("leftcheats has %d rows, need 61", len(leftcheats))
	}
	for b := 0; b < 256; b++ {
		n++
		if digits[b] != (b >= '0' && b <= '9') {
			report("digits[%d] = %v", b, digits[b])
		}
	}
	fmt.Printf("AUDIT-RESULT words=%d mismatches=%d\n", n, bad)
	_ = strings.TrimSpace
}
