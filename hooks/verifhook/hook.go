//go:build verif

// Package verifhook is a virtual package added to github.com/willabides/rjson by the /verif overlay.
// It is the sink of the hooks the instrumenter inserts into the generated state machines and into
// package-variable accesses, and it is imported by the harness to read them back.
package verifhook

// Event is the configuration in which a generated machine met end of input.
type Event struct {
	Fn    string
	Cs    int
	Top   int
	Stack []int
	Depth int // number of active machine invocations (frames) when it happened
}

var (
	// On switches recording on. Off (the default) makes every hook a cheap no-op so that the same
	// binary can run hook-free parallel enumerations.
	On bool

	depth  int
	have   bool
	first  Event
	nEOF   int
	maxDep int

	// Seen[fn][cs] counts EOF events per machine state (state coverage, the vacuity self check).
	Seen = map[string]map[int]int{}
	// Totals is filled by the generated file totals.go: number of _test_eofN labels per function.
	Totals = map[string]int{}
)

// Reset clears the per-execution record.
func Reset() {
	depth = 0
	have = false
	nEOF = 0
	maxDep = 0
}

// Enter is called at the entry of every generated machine function.
func Enter(fn string) {
	if !On {
		return
	}
	depth++
	if depth > maxDep {
		maxDep = depth
	}
}

// Exit is deferred at the entry of every generated machine function.
func Exit() {
	if !On {
		return
	}
	depth--
}

// EOF is called from the (otherwise empty) block under the _test_eof label.
func EOF(fn string, cs, top int, stack []int) {
	if !On {
		return
	}
	nEOF++
	m := Seen[fn]
	if m == nil {
		m = map[int]int{}
		Seen[fn] = m
	}
	m[cs]++
	if have {
		return
	}
	have = true
	first.Fn, first.Cs, first.Top, first.Depth = fn, cs, top, depth
	if top > len(stack) {
		top = len(stack)
	}
	if top < 0 {
		top = 0
	}
	first.Stack = append(first.Stack[:0], stack[:top]...)
}

// First returns the first EOF event of the current execution.
func First() (Event, bool) { return first, have }

// NEOF is the number of EOF events of the current execution.
func NEOF() int { return nEOF }

// MaxDepth is the deepest machine-frame nesting of the current execution.
func MaxDepth() int { return maxDep }
