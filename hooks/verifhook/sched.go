//go:build verif && go1.18

package verifhook

import "unsafe"

// Sched, when non-nil, is called before every use of a package-level variable in the
// instrumented library: id identifies the variable, kind is 0 read / 1 write / 2 address taken.
// It is the scheduling point and the access log of the cooperative scheduler (E4).
var Sched func(id, kind int, addr unsafe.Pointer)

// PVarNames maps variable ids to names (filled by the generated totals file).
var PVarNames = map[string][]string{}

// Snapshot, when true, makes P remember the value every package-level variable had the first
// time it was about to be used (P runs before the access), so that RestoreAll can put the
// package back into its initial state before each explored execution: lazily initialised tables
// are then uninitialised again and their unsynchronised first-use writes are seen on every run.
var Snapshot bool

var restores = map[int]func(){}

// P is wrapped round every use of a package-level variable: (*P(id, kind, &v)).
func P[T any](id, kind int, p *T) *T {
	if Snapshot {
		if _, ok := restores[id]; !ok {
			v := *p
			restores[id] = func() { *p = v }
		}
	}
	if Sched != nil {
		Sched(id, kind, unsafe.Pointer(p))
	}
	return p
}

// RestoreAll resets every package-level variable seen so far to its first-seen value.
func RestoreAll() {
	for _, f := range restores {
		f()
	}
}

// Snapshots is the number of variables under snapshot.
func Snapshots() int { return len(restores) }
