//go:build verif && go1.18

package verifhook

import "unsafe"

// Sched, when non-nil, is called before every use of a package-level variable in the
// instrumented library: id identifies the variable, kind is 0 read / 1 write / 2 address taken.
// It is the scheduling point and the access log of the cooperative scheduler (E4).
var Sched func(id, kind int, addr unsafe.Pointer)

// PVarNames maps variable ids to names (filled by the generated totals file).
var PVarNames = map[string][]string{}

// P is wrapped round every use of a package-level variable: (*P(id, kind, &v)).
func P[T any](id, kind int, p *T) *T {
	if Sched != nil {
		Sched(id, kind, unsafe.Pointer(p))
	}
	return p
}
