package ref

import (
	"math"
	"strconv"
)

// Member is one array element / object member as the reference traversal (R-trav) sees it.
type Member struct {
	KeyStart, KeyEnd int // raw key bytes between the quotes: w[KeyStart:KeyEnd] (objects only)
	Start, End       int // value extent w[Start:End]
}

// Float is the float oracle used by the reference decoder: strconv.ParseFloat, except for very
// long literals where strconv itself misplaces the decimal point and exact rounding is used.
func Float(tok string) (f float64, ok bool) {
	if len(tok) > 700 {
		f, ov, ok := RoundExact(tok)
		return f, ok && !ov
	}
	f, err := strconv.ParseFloat(tok, 64)
	if err != nil {
		return 0, false
	}
	return f, true
}

type dec struct {
	w     []byte
	depth int
	// numberOK lets the traversal-only uses skip float conversion
	noFloat bool
}

func (d *dec) ws(i int) int {
	for i < len(d.w) && isWS(d.w[i]) {
		i++
	}
	return i
}

// value parses the value starting at w[i] (no leading whitespace). build=false only validates.
func (d *dec) value(i int, build bool) (val interface{}, end int, ok bool) {
	w := d.w
	if i >= len(w) {
		return nil, 0, false
	}
	switch c := w[i]; {
	case c == '{':
		if d.depth >= MaxDepth {
			return nil, 0, false
		}
		d.depth++
		defer func() { d.depth-- }()
		var m map[string]interface{}
		if build {
			m = map[string]interface{}{}
		}
		j := d.ws(i + 1)
		if j < len(w) && w[j] == '}' {
			return m, j + 1, true
		}
		for {
			if j >= len(w) || w[j] != '"' {
				return nil, 0, false
			}
			ks, ke, ok := StringToken(w[j:])
			if !ok || ks != 0 {
				return nil, 0, false
			}
			var key []byte
			if build {
				key, _ = Unescape(w[j+1 : j+ke-1])
			}
			j = d.ws(j + ke)
			if j >= len(w) || w[j] != ':' {
				return nil, 0, false
			}
			j = d.ws(j + 1)
			v, e, ok := d.value(j, build)
			if !ok {
				return nil, 0, false
			}
			if build {
				m[string(key)] = v
			}
			j = d.ws(e)
			if j >= len(w) {
				return nil, 0, false
			}
			if w[j] == '}' {
				return m, j + 1, true
			}
			if w[j] != ',' {
				return nil, 0, false
			}
			j = d.ws(j + 1)
		}
	case c == '[':
		if d.depth >= MaxDepth {
			return nil, 0, false
		}
		d.depth++
		defer func() { d.depth-- }()
		var arr []interface{}
		if build {
			arr = []interface{}{}
		}
		j := d.ws(i + 1)
		if j < len(w) && w[j] == ']' {
			return arr, j + 1, true
		}
		for {
			v, e, ok := d.value(j, build)
			if !ok {
				return nil, 0, false
			}
			if build {
				arr = append(arr, v)
			}
			j = d.ws(e)
			if j >= len(w) {
				return nil, 0, false
			}
			if w[j] == ']' {
				return arr, j + 1, true
			}
			if w[j] != ',' {
				return nil, 0, false
			}
			j = d.ws(j + 1)
		}
	case c == '"':
		s, e, ok := StringToken(w[i:])
		if !ok || s != 0 {
			return nil, 0, false
		}
		if build {
			u, _ := Unescape(w[i+1 : i+e-1])
			return string(u), i + e, true
		}
		return nil, i + e, true
	case c == 't':
		if p, ok := Literal(w[i:], "true"); ok {
			return true, i + p, true
		}
		return nil, 0, false
	case c == 'f':
		if p, ok := Literal(w[i:], "false"); ok {
			return false, i + p, true
		}
		return nil, 0, false
	case c == 'n':
		if p, ok := Literal(w[i:], "null"); ok {
			return nil, i + p, true
		}
		return nil, 0, false
	case c == '-' || isDigit(c):
		s, e, _, ok := NumberToken(w[i:])
		if !ok || s != 0 {
			return nil, 0, false
		}
		if build && !d.noFloat {
			f, ok := Float(string(w[i : i+e]))
			if !ok {
				return nil, 0, false
			}
			return f, i + e, true
		}
		return nil, i + e, true
	}
	return nil, 0, false
}

// Decode is the reference generic decoder (R-tree): the first value of w as an interface{} tree
// (objects as maps with the last duplicate key winning, arrays as slices, numbers as float64,
// strings decoded with raw bytes preserved), the offset just after it, and whether the first
// value is well-formed, nested at most MaxDepth deep, with all numbers in float64 range.
func Decode(w []byte) (val interface{}, end int, ok bool) {
	d := &dec{w: w}
	i := d.ws(0)
	return d.value(i, true)
}

// Members is the reference traversal (R-trav): if the first value of w is a well-formed array
// (kind '[') or object (kind '{'), its members in document order and the offset after the closing
// bracket. isNull reports that the first value is the literal null instead (end is then the
// offset after it).
func Members(w []byte, kind byte) (ms []Member, end int, ok bool, isNull bool) {
	d := &dec{w: w, noFloat: true}
	i := d.ws(0)
	if p, nok := Literal(w, "null"); nok {
		return nil, p, false, true
	}
	if i >= len(w) || w[i] != kind {
		return nil, 0, false, false
	}
	_, e, vok := d.value(i, false)
	if !vok {
		return nil, 0, false, false
	}
	// well-formed: list the members
	d.depth = 1
	j := d.ws(i + 1)
	closer := byte(']')
	if kind == '{' {
		closer = '}'
	}
	if w[j] == closer {
		return nil, e, true, false
	}
	for {
		var m Member
		if kind == '{' {
			_, ke, _ := StringToken(w[j:])
			m.KeyStart, m.KeyEnd = j+1, j+ke-1
			j = d.ws(j + ke)
			j = d.ws(j + 1) // ':'
		}
		_, ve, _ := d.value(j, false)
		m.Start, m.End = j, ve
		ms = append(ms, m)
		j = d.ws(ve)
		if w[j] == closer {
			return ms, e, true, false
		}
		j = d.ws(j + 1) // ','
	}
}

// SameTree compares two decoded trees; floats by bit pattern.
func SameTree(a, b interface{}) bool {
	switch x := a.(type) {
	case nil:
		return b == nil
	case bool:
		y, ok := b.(bool)
		return ok && x == y
	case float64:
		y, ok := b.(float64)
		return ok && math.Float64bits(x) == math.Float64bits(y)
	case string:
		y, ok := b.(string)
		return ok && x == y
	case []interface{}:
		y, ok := b.([]interface{})
		if !ok || len(x) != len(y) || (x == nil) != (y == nil) {
			return false
		}
		for i := range x {
			if !SameTree(x[i], y[i]) {
				return false
			}
		}
		return true
	case map[string]interface{}:
		y, ok := b.(map[string]interface{})
		if !ok || len(x) != len(y) || (x == nil) != (y == nil) {
			return false
		}
		for k, v := range x {
			v2, ok := y[k]
			if !ok || !SameTree(v, v2) {
				return false
			}
		}
		return true
	}
	return false
}

// SanitizeTree applies R-utf8 to every string value and key; collide reports that two keys of
// one object became equal.
func SanitizeTree(v interface{}) (out interface{}, collide bool) {
	switch x := v.(type) {
	case string:
		return string(SanitizeUTF8([]byte(x))), false
	case []interface{}:
		o := make([]interface{}, len(x))
		for i := range x {
			var c bool
			o[i], c = SanitizeTree(x[i])
			collide = collide || c
		}
		return o, collide
	case map[string]interface{}:
		o := make(map[string]interface{}, len(x))
		for k, vv := range x {
			k2 := string(SanitizeUTF8([]byte(k)))
			if _, dup := o[k2]; dup {
				collide = true
			}
			var c bool
			o[k2], c = SanitizeTree(vv)
			collide = collide || c
		}
		return o, collide
	}
	return v, false
}
