package ref

// Token kinds of the fixed JSON token table (R-tok), typed in from RFC 8259: the byte that
// begins each kind of token.
const (
	TInvalid = iota
	TNull
	TString
	TNumber
	TTrue
	TFalse
	TObjectStart
	TObjectEnd
	TArrayStart
	TArrayEnd
	TComma
	TColon
)

// TokTable is the 256-entry classification table.
var TokTable [256]int

func init() {
	TokTable['n'] = TNull
	TokTable['"'] = TString
	TokTable['t'] = TTrue
	TokTable['f'] = TFalse
	TokTable['{'] = TObjectStart
	TokTable['}'] = TObjectEnd
	TokTable['['] = TArrayStart
	TokTable[']'] = TArrayEnd
	TokTable[','] = TComma
	TokTable[':'] = TColon
	TokTable['-'] = TNumber
	for c := '0'; c <= '9'; c++ {
		TokTable[c] = TNumber
	}
}

// NextToken is the reference for NextToken / NextTokenType: skip exactly the four JSON
// whitespace bytes, classify the next byte, report index+1; eof for empty/all-whitespace input.
func NextToken(w []byte) (b byte, kind int, p int, eof bool) {
	i := 0
	for i < len(w) && isWS(w[i]) {
		i++
	}
	if i >= len(w) {
		return 0, TInvalid, i, true
	}
	return w[i], TokTable[w[i]], i + 1, false
}

// Literal is the reference for ReadNull / ReadBool: after whitespace the bytes of lit.
func Literal(w []byte, lit string) (p int, ok bool) {
	i := 0
	for i < len(w) && isWS(w[i]) {
		i++
	}
	if len(w)-i < len(lit) || string(w[i:i+len(lit)]) != lit {
		return 0, false
	}
	return i + len(lit), true
}

// IsWS exports the whitespace predicate.
func IsWS(b byte) bool { return isWS(b) }
