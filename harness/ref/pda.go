// Package ref holds the reference models. They are written from RFC 8259 and the property
// statements, not from rjson's sources, and are cross-checked against encoding/json / strconv on
// every explored input by the property drivers.
package ref

import "strconv"

// MaxDepth is the nesting limit the properties state (10,000 levels).
const MaxDepth = 10000

type Phase uint8

const (
	PTop      Phase = iota // before the top-level value (whitespace allowed)
	PLit                   // inside true / false / null
	PNum                   // inside a number
	PStr                   // inside a string (key or value)
	PAfterVal              // inside a container, after a value: expect ',' or closer
	PArrFirst              // after '[': expect value or ']'
	PArrNext               // after ',' in array: expect value
	PObjFirst              // after '{': expect key or '}'
	PObjKey                // after ',' in object: expect key
	PObjColon              // after key: expect ':'
	PObjVal                // after ':': expect value
	PDone                  // top-level value complete
	PSink                  // syntax error: no extension is a value
)

var phaseNames = [...]string{"Top", "Lit", "Num", "Str", "AfterVal", "ArrFirst", "ArrNext", "ObjFirst", "ObjKey", "ObjColon", "ObjVal", "Done", "Sink"}

func (p Phase) String() string { return phaseNames[p] }

type NumSt uint8

const (
	NMinus NumSt = iota
	NZero
	NInt
	NDot
	NFrac
	NE
	NESign
	NExp
)

type StrSt uint8

const (
	SPlain StrSt = iota
	SEsc
	SU1
	SU2
	SU3
	SU4
)

// PDA is the byte-at-a-time reference automaton for "the first JSON value of the input, then
// only whitespace". Numbers are taken by maximal munch.
type PDA struct {
	Ctx   []byte // 'A' or 'O' per open container
	Later []bool // member index >= 1 in that container (mirrors Ragel's unrolling of the first member)
	Phase Phase
	Lit   string // the literal being matched
	LitI  int
	Num   NumSt
	NDig  int // digits in the current digit run, saturating at DigSat
	Str   StrSt
	IsKey bool // current string is an object key
	Esc   bool // an escape has been seen in the current string
	WS    int  // whitespace run length in the current phase, saturating at 2
	Pos   int  // bytes consumed
	End   int  // offset just after the first value (valid when Phase==PDone or top-level number complete)
	Trail int  // after Done: 0 nothing, 1 only whitespace, 2 something else
	Deep  bool // sink was entered because of the depth limit
	// DigSat is the saturation bound for NDig (default 3).
	DigSat int
}

func NewPDA() *PDA { return &PDA{DigSat: 3} }

func isWS(b byte) bool    { return b == ' ' || b == '\t' || b == '\n' || b == '\r' }
func isDigit(b byte) bool { return b >= '0' && b <= '9' }
func isHex(b byte) bool {
	return isDigit(b) || (b >= 'a' && b <= 'f') || (b >= 'A' && b <= 'F')
}

func (a *PDA) sink() { a.Phase = PSink }

func (a *PDA) incDig() {
	if a.NDig < a.DigSat {
		a.NDig++
	}
}

// valueDone is called when a value has just been completed at offset end (exclusive).
func (a *PDA) valueDone(end int) {
	if len(a.Ctx) == 0 {
		a.Phase = PDone
		a.End = end
		a.Trail = 0
		a.WS = 0
		return
	}
	a.Phase = PAfterVal
	a.WS = 0
}

func (a *PDA) push(c byte) {
	if len(a.Ctx) >= MaxDepth {
		a.Deep = true
		a.sink()
		return
	}
	a.Ctx = append(a.Ctx, c)
	a.Later = append(a.Later, false)
	if c == 'A' {
		a.Phase = PArrFirst
	} else {
		a.Phase = PObjFirst
	}
	a.WS = 0
}

func (a *PDA) pop() {
	a.Ctx = a.Ctx[:len(a.Ctx)-1]
	a.Later = a.Later[:len(a.Later)-1]
	a.valueDone(a.Pos + 1)
}

// startValue handles the first byte of a value.
func (a *PDA) startValue(b byte) {
	switch {
	case b == '[':
		a.push('A')
	case b == '{':
		a.push('O')
	case b == '"':
		a.Phase, a.Str, a.IsKey, a.Esc = PStr, SPlain, false, false
	case b == 't':
		a.Phase, a.Lit, a.LitI = PLit, "true", 1
	case b == 'f':
		a.Phase, a.Lit, a.LitI = PLit, "false", 1
	case b == 'n':
		a.Phase, a.Lit, a.LitI = PLit, "null", 1
	case b == '-':
		a.Phase, a.Num, a.NDig = PNum, NMinus, 0
	case b == '0':
		a.Phase, a.Num, a.NDig = PNum, NZero, 1
	case b >= '1' && b <= '9':
		a.Phase, a.Num, a.NDig = PNum, NInt, 1
	default:
		a.sink()
	}
}

func (a *PDA) numComplete() bool {
	return a.Num == NZero || a.Num == NInt || a.Num == NFrac || a.Num == NExp
}

// Step consumes one byte.
func (a *PDA) Step(b byte) {
	a.step(b)
	a.Pos++
}

// step processes byte b, which sits at index a.Pos.
func (a *PDA) step(b byte) {
	switch a.Phase {
	case PSink:
		return
	case PDone:
		if a.Trail == 2 {
			return
		}
		if isWS(b) {
			a.Trail = 1
			if a.WS < 2 {
				a.WS++
			}
		} else {
			a.Trail = 2
		}
		return
	case PTop, PArrNext, PObjVal:
		if isWS(b) {
			if a.WS < 2 {
				a.WS++
			}
			return
		}
		a.WS = 0
		a.startValue(b)
	case PArrFirst:
		if isWS(b) {
			if a.WS < 2 {
				a.WS++
			}
			return
		}
		a.WS = 0
		if b == ']' {
			a.pop()
			return
		}
		a.startValue(b)
	case PObjFirst, PObjKey:
		if isWS(b) {
			if a.WS < 2 {
				a.WS++
			}
			return
		}
		a.WS = 0
		if b == '}' && a.Phase == PObjFirst {
			a.pop()
			return
		}
		if b == '"' {
			a.Phase, a.Str, a.IsKey, a.Esc = PStr, SPlain, true, false
			return
		}
		a.sink()
	case PObjColon:
		if isWS(b) {
			if a.WS < 2 {
				a.WS++
			}
			return
		}
		a.WS = 0
		if b == ':' {
			a.Phase = PObjVal
			return
		}
		a.sink()
	case PAfterVal:
		a.afterVal(b)
	case PLit:
		if b != a.Lit[a.LitI] {
			a.sink()
			return
		}
		a.LitI++
		if a.LitI == len(a.Lit) {
			a.valueDone(a.Pos + 1)
		}
	case PStr:
		switch a.Str {
		case SPlain:
			switch {
			case b == '"':
				if a.IsKey {
					a.Phase = PObjColon
					a.WS = 0
				} else {
					a.valueDone(a.Pos + 1)
				}
			case b == '\\':
				a.Str = SEsc
				a.Esc = true
			case b < 0x20:
				a.sink()
			}
		case SEsc:
			switch b {
			case '"', '\\', '/', 'b', 'f', 'n', 'r', 't':
				a.Str = SPlain
			case 'u':
				a.Str = SU1
			default:
				a.sink()
			}
		default: // SU1..SU4
			if !isHex(b) {
				a.sink()
				return
			}
			if a.Str == SU4 {
				a.Str = SPlain
			} else {
				a.Str++
			}
		}
	case PNum:
		switch a.Num {
		case NMinus:
			if b == '0' {
				a.Num, a.NDig = NZero, 1
			} else if b >= '1' && b <= '9' {
				a.Num, a.NDig = NInt, 1
			} else {
				a.sink()
			}
			return
		case NZero:
			if b == '.' {
				a.Num, a.NDig = NDot, 0
				return
			}
			if b == 'e' || b == 'E' {
				a.Num, a.NDig = NE, 0
				return
			}
		case NInt:
			if isDigit(b) {
				a.incDig()
				return
			}
			if b == '.' {
				a.Num, a.NDig = NDot, 0
				return
			}
			if b == 'e' || b == 'E' {
				a.Num, a.NDig = NE, 0
				return
			}
		case NDot:
			if isDigit(b) {
				a.Num, a.NDig = NFrac, 1
			} else {
				a.sink()
			}
			return
		case NFrac:
			if isDigit(b) {
				a.incDig()
				return
			}
			if b == 'e' || b == 'E' {
				a.Num, a.NDig = NE, 0
				return
			}
		case NE:
			if b == '+' || b == '-' {
				a.Num = NESign
			} else if isDigit(b) {
				a.Num, a.NDig = NExp, 1
			} else {
				a.sink()
			}
			return
		case NESign:
			if isDigit(b) {
				a.Num, a.NDig = NExp, 1
			} else {
				a.sink()
			}
			return
		case NExp:
			if isDigit(b) {
				a.incDig()
				return
			}
		}
		// a byte that cannot extend a complete number: the number ends before it and the
		// byte is processed in the following state.
		a.valueDone(a.Pos)
		if a.Phase == PDone {
			if isWS(b) {
				a.Trail, a.WS = 1, 1
			} else {
				a.Trail = 2
			}
			return
		}
		a.afterVal(b)
	}
}

// afterVal processes byte b (at index a.Pos) in phase PAfterVal.
func (a *PDA) afterVal(b byte) {
	if isWS(b) {
		if a.WS < 2 {
			a.WS++
		}
		return
	}
	a.WS = 0
	top := a.Ctx[len(a.Ctx)-1]
	switch {
	case b == ',':
		a.Later[len(a.Later)-1] = true
		if top == 'A' {
			a.Phase = PArrNext
		} else {
			a.Phase = PObjKey
		}
	case b == ']' && top == 'A', b == '}' && top == 'O':
		a.pop()
	default:
		a.sink()
	}
}

// Run feeds all of w to a fresh automaton.
func Run(w []byte) *PDA {
	a := NewPDA()
	for _, b := range w {
		a.Step(b)
	}
	return a
}

// RunSat is Run with a chosen digit-run saturation bound.
func RunSat(w []byte, digSat int) *PDA {
	a := NewPDA()
	a.DigSat = digSat
	for _, b := range w {
		a.Step(b)
	}
	return a
}

// FirstValue reports whether the input read so far begins (after whitespace) with a complete
// value, and the offset just after it ("end of input" completes a top-level number).
func (a *PDA) FirstValue() (ok bool, end int) {
	if a.Phase == PDone {
		return true, a.End
	}
	if a.Phase == PNum && len(a.Ctx) == 0 && a.numComplete() {
		return true, a.Pos
	}
	return false, 0
}

// Valid reports whether the input read so far is exactly one value surrounded by whitespace.
func (a *PDA) Valid() bool {
	ok, _ := a.FirstValue()
	return ok && !(a.Phase == PDone && a.Trail == 2)
}

// Alive reports whether the verdicts can still depend on further input: not in the sink and not
// past trailing garbage.
func (a *PDA) Alive() bool {
	if a.Phase == PSink {
		return false
	}
	if a.Phase == PDone && a.Trail == 2 {
		return false
	}
	return true
}

// Depth is the number of open containers.
func (a *PDA) Depth() int { return len(a.Ctx) }

// Key is the canonical state used as the specification half of exploration keys. It contains
// everything the automaton's future depends on except absolute positions.
func (a *PDA) Key() string {
	b := make([]byte, 0, 32)
	for i, c := range a.Ctx {
		if a.Later[i] {
			b = append(b, c+32) // lower case: member index >= 1
		} else {
			b = append(b, c)
		}
	}
	b = append(b, '|')
	b = append(b, a.Phase.String()...)
	switch a.Phase {
	case PLit:
		b = append(b, ':')
		b = append(b, a.Lit[:a.LitI]...)
	case PNum:
		b = append(b, ':')
		b = strconv.AppendInt(b, int64(a.Num), 10)
		b = append(b, '.')
		b = strconv.AppendInt(b, int64(a.NDig), 10)
	case PStr:
		b = append(b, ':')
		b = strconv.AppendInt(b, int64(a.Str), 10)
		if a.IsKey {
			b = append(b, 'k')
		}
		if a.Esc {
			b = append(b, 'e')
		}
	case PDone:
		b = append(b, ':')
		b = strconv.AppendInt(b, int64(a.Trail), 10)
	case PSink:
		if a.Deep {
			b = append(b, 'D')
		}
	}
	if a.WS > 0 {
		b = append(b, 'w')
		b = strconv.AppendInt(b, int64(a.WS), 10)
	}
	return string(b)
}

// Completion returns a shortest suffix that turns the input read so far into a complete valid
// document, or nil if there is none (sink / trailing garbage) or nothing is needed.
func (a *PDA) Completion() []byte {
	if !a.Alive() || a.Phase == PDone {
		return nil
	}
	var s []byte
	closeAll := func(from int) {
		for i := from; i >= 0; i-- {
			if a.Ctx[i] == 'A' {
				s = append(s, ']')
			} else {
				s = append(s, '}')
			}
		}
	}
	n := len(a.Ctx)
	switch a.Phase {
	case PTop, PArrNext, PObjVal:
		s = append(s, '0')
	case PLit:
		s = append(s, a.Lit[a.LitI:]...)
	case PNum:
		switch a.Num {
		case NMinus, NDot, NE, NESign:
			s = append(s, '0')
		}
	case PStr:
		switch a.Str {
		case SEsc:
			s = append(s, 'n')
		case SU1:
			s = append(s, "0000"...)
		case SU2:
			s = append(s, "000"...)
		case SU3:
			s = append(s, "00"...)
		case SU4:
			s = append(s, '0')
		}
		s = append(s, '"')
		if a.IsKey {
			s = append(s, ":0"...)
		}
	case PObjKey:
		s = append(s, `"":0`...)
	case PObjColon:
		s = append(s, ":0"...)
	case PArrFirst, PObjFirst, PAfterVal:
	}
	closeAll(n - 1)
	return s
}
