package ref

import (
	"unicode/utf8"
)

// Unescape is the reference string unescaper (R-str). content is the bytes between the quotes of
// a well-formed JSON string token. Escapes are resolved, UTF-16 surrogate pairs combined,
// unpaired surrogates replaced by U+FFFD, every unescaped byte copied unchanged. ok is false if
// content is not the inside of a well-formed string token.
func Unescape(content []byte) (out []byte, ok bool) {
	i := 0
	for i < len(content) {
		c := content[i]
		switch {
		case c == '"' || c < 0x20:
			return nil, false
		case c != '\\':
			out = append(out, c)
			i++
		default:
			if i+1 >= len(content) {
				return nil, false
			}
			e := content[i+1]
			switch e {
			case '"', '\\', '/':
				out = append(out, e)
				i += 2
			case 'b':
				out = append(out, '\b')
				i += 2
			case 'f':
				out = append(out, '\f')
				i += 2
			case 'n':
				out = append(out, '\n')
				i += 2
			case 'r':
				out = append(out, '\r')
				i += 2
			case 't':
				out = append(out, '\t')
				i += 2
			case 'u':
				u, ok := hex4(content[i+2:])
				if !ok {
					return nil, false
				}
				i += 6
				switch {
				case u >= 0xD800 && u <= 0xDBFF:
					// high surrogate: pairs only with an immediately following \uDC00..\uDFFF
					if i+6 <= len(content) && content[i] == '\\' && content[i+1] == 'u' {
						if lo, ok2 := hex4(content[i+2:]); ok2 && lo >= 0xDC00 && lo <= 0xDFFF {
							r := rune(0x10000 + (u-0xD800)<<10 + (lo - 0xDC00))
							out = utf8.AppendRune(out, r)
							i += 6
							continue
						}
					}
					out = append(out, 0xEF, 0xBF, 0xBD)
				case u >= 0xDC00 && u <= 0xDFFF:
					out = append(out, 0xEF, 0xBF, 0xBD)
				default:
					out = utf8.AppendRune(out, rune(u))
				}
			default:
				return nil, false
			}
		}
	}
	return out, true
}

func hex4(b []byte) (int, bool) {
	if len(b) < 4 {
		return 0, false
	}
	v := 0
	for _, c := range b[:4] {
		switch {
		case c >= '0' && c <= '9':
			v = v*16 + int(c-'0')
		case c >= 'a' && c <= 'f':
			v = v*16 + int(c-'a') + 10
		case c >= 'A' && c <= 'F':
			v = v*16 + int(c-'A') + 10
		default:
			return 0, false
		}
	}
	return v, true
}

// StringToken locates the first token of w if it is a string: w[start] is the opening quote and
// w[end-1] the closing one. ok is false if the first token is not a well-formed string.
func StringToken(w []byte) (start, end int, ok bool) {
	i := 0
	for i < len(w) && isWS(w[i]) {
		i++
	}
	if i >= len(w) || w[i] != '"' {
		return 0, 0, false
	}
	start = i
	i++
	for i < len(w) {
		switch {
		case w[i] == '"':
			if _, ok := Unescape(w[start+1 : i]); !ok {
				return 0, 0, false
			}
			return start, i + 1, true
		case w[i] == '\\':
			i += 2
		default:
			i++
		}
	}
	return 0, 0, false
}

// ReadString is the reference for the string readers: success, offset after the closing quote,
// decoded content.
func ReadString(w []byte) (val []byte, p int, ok bool) {
	s, e, ok := StringToken(w)
	if !ok {
		return nil, 0, false
	}
	val, ok = Unescape(w[s+1 : e-1])
	if !ok {
		return nil, 0, false
	}
	if val == nil {
		val = []byte{}
	}
	return val, e, true
}

// SanitizeUTF8 is R-utf8: every byte that is not part of a valid UTF-8 sequence is replaced by
// U+FFFD, everything else is kept.
func SanitizeUTF8(s []byte) []byte {
	out := make([]byte, 0, len(s))
	for i := 0; i < len(s); {
		n := validSeqLen(s[i:])
		if n == 0 {
			out = append(out, 0xEF, 0xBF, 0xBD)
			i++
			continue
		}
		out = append(out, s[i:i+n]...)
		i += n
	}
	return out
}

// validSeqLen returns the length of the well-formed UTF-8 sequence at the start of s per the
// Unicode standard's table 3-7 (0 if the first byte does not start one). Written out by hand so
// that it does not share code with the implementation under test.
func validSeqLen(s []byte) int {
	b0 := s[0]
	cont := func(i int, lo, hi byte) bool { return i < len(s) && s[i] >= lo && s[i] <= hi }
	switch {
	case b0 < 0x80:
		return 1
	case b0 >= 0xC2 && b0 <= 0xDF:
		if cont(1, 0x80, 0xBF) {
			return 2
		}
	case b0 == 0xE0:
		if cont(1, 0xA0, 0xBF) && cont(2, 0x80, 0xBF) {
			return 3
		}
	case (b0 >= 0xE1 && b0 <= 0xEC) || b0 == 0xEE || b0 == 0xEF:
		if cont(1, 0x80, 0xBF) && cont(2, 0x80, 0xBF) {
			return 3
		}
	case b0 == 0xED:
		if cont(1, 0x80, 0x9F) && cont(2, 0x80, 0xBF) {
			return 3
		}
	case b0 == 0xF0:
		if cont(1, 0x90, 0xBF) && cont(2, 0x80, 0xBF) && cont(3, 0x80, 0xBF) {
			return 4
		}
	case b0 >= 0xF1 && b0 <= 0xF3:
		if cont(1, 0x80, 0xBF) && cont(2, 0x80, 0xBF) && cont(3, 0x80, 0xBF) {
			return 4
		}
	case b0 == 0xF4:
		if cont(1, 0x80, 0x8F) && cont(2, 0x80, 0xBF) && cont(3, 0x80, 0xBF) {
			return 4
		}
	}
	return 0
}

// StrRefine is the extra specification state the string explorations need beyond the PDA: the
// class of the partially read \u escape and whether a high surrogate is pending (the last
// completed token of the string was a \uD800..\uDBFF escape).
func StrRefine(w []byte) string {
	i := 0
	for i < len(w) && isWS(w[i]) {
		i++
	}
	if i >= len(w) || w[i] != '"' {
		return ""
	}
	i++
	pending := false
	for i < len(w) {
		c := w[i]
		if c == '"' {
			return ""
		}
		if c != '\\' {
			pending = false
			i++
			continue
		}
		// escape
		if i+1 >= len(w) {
			return ref3(pending, "\\")
		}
		if w[i+1] != 'u' {
			pending = false
			i += 2
			continue
		}
		if i+6 > len(w) {
			return ref3(pending, uclass(w[i+2:]))
		}
		u, ok := hex4(w[i+2:])
		if !ok {
			return "bad"
		}
		if pending && u >= 0xDC00 && u <= 0xDFFF {
			pending = false
		} else {
			pending = u >= 0xD800 && u <= 0xDBFF
		}
		i += 6
	}
	return ref3(pending, "")
}

func ref3(pending bool, part string) string {
	if pending {
		return "H" + part
	}
	return part
}

func uclass(d []byte) string {
	// partial hex digits of a \u escape: what matters is whether it can still become a
	// high / low surrogate
	if len(d) == 0 {
		return "u"
	}
	c0 := d[0] | 0x20
	if c0 != 'd' {
		return "u-"
	}
	if len(d) == 1 {
		return "ud"
	}
	c1 := d[1] | 0x20
	switch {
	case c1 >= '8' && c1 <= '9', c1 == 'a', c1 == 'b':
		return "udh"
	case c1 >= 'c' && c1 <= 'f':
		return "udl"
	}
	return "u-"
}
