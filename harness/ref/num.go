package ref

import (
	"math/big"
)

// NumberToken returns the extent of the JSON number that is the first token of w (after
// whitespace) by maximal munch: w[start:end]. ok is false if the first token is not a complete
// number (e.g. "-", "1.", "1e", "1e+"). isInt reports that it has no fraction and no exponent.
func NumberToken(w []byte) (start, end int, isInt, ok bool) {
	i := 0
	for i < len(w) && isWS(w[i]) {
		i++
	}
	start = i
	if i < len(w) && w[i] == '-' {
		i++
	}
	if i >= len(w) {
		return 0, 0, false, false
	}
	switch {
	case w[i] == '0':
		i++
	case w[i] >= '1' && w[i] <= '9':
		for i < len(w) && isDigit(w[i]) {
			i++
		}
	default:
		return 0, 0, false, false
	}
	isInt = true
	if i < len(w) && w[i] == '.' {
		isInt = false
		i++
		if i >= len(w) || !isDigit(w[i]) {
			return 0, 0, false, false
		}
		for i < len(w) && isDigit(w[i]) {
			i++
		}
	}
	if i < len(w) && (w[i] == 'e' || w[i] == 'E') {
		isInt = false
		i++
		if i < len(w) && (w[i] == '+' || w[i] == '-') {
			i++
		}
		if i >= len(w) || !isDigit(w[i]) {
			return 0, 0, false, false
		}
		for i < len(w) && isDigit(w[i]) {
			i++
		}
	}
	return start, i, isInt, true
}

// IntSpec is the reference for the integer readers (R-int): the first token must be an integer
// literal (no fraction, no exponent; a following '.', 'e' or 'E' makes the token a non-integer
// or malformed number, hence an error), unsigned targets reject a sign, and the value must lie in
// [min, max]. Returns the value and the offset just after the last digit.
func IntSpec(w []byte, signed bool, min, max *big.Int) (val *big.Int, p int, ok bool) {
	i := 0
	for i < len(w) && isWS(w[i]) {
		i++
	}
	start := i
	if i < len(w) && w[i] == '-' {
		if !signed {
			return nil, 0, false
		}
		i++
	}
	ds := i
	if i >= len(w) {
		return nil, 0, false
	}
	switch {
	case w[i] == '0':
		i++
	case w[i] >= '1' && w[i] <= '9':
		for i < len(w) && isDigit(w[i]) {
			i++
		}
	default:
		return nil, 0, false
	}
	if i < len(w) && (w[i] == '.' || w[i] == 'e' || w[i] == 'E') {
		return nil, 0, false
	}
	v, _ := new(big.Int).SetString(string(w[ds:i]), 10)
	if w[start] == '-' {
		v.Neg(v)
	}
	if v.Cmp(min) < 0 || v.Cmp(max) > 0 {
		return nil, 0, false
	}
	return v, i, true
}
