package ref

import (
	"math"
	"math/big"
)

// RoundExact is the independent float oracle: the literal's exact rational value rounded to the
// nearest float64, ties to even, computed with math/big. overflow reports that the rounded
// magnitude exceeds the largest finite float64. The sign of zero follows the literal's sign.
func RoundExact(lit string) (f float64, overflow bool, ok bool) {
	r, ok := new(big.Rat).SetString(lit)
	if !ok {
		return 0, false, false
	}
	f, _ = r.Float64()
	if math.IsInf(f, 0) {
		return f, true, true
	}
	if f == 0 && len(lit) > 0 && lit[0] == '-' {
		f = math.Copysign(0, -1)
	}
	return f, false, true
}
