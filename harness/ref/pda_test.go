package ref

import (
	"bytes"
	"encoding/json"
	"testing"
)

// Cross-check of the reference automaton against encoding/json over all strings of length <= 5
// on a JSON alphabet. Not part of any registered check; a development self-test.
func TestPDAAgainstStdlib(t *testing.T) {
	alpha := []byte(`[]{}:,"\ 01-.eEtrufalsn` + "\t\x00x")
	var rec func(w []byte, d int)
	n := 0
	rec = func(w []byte, d int) {
		a := Run(w)
		n++
		if a.Valid() != json.Valid(w) {
			t.Fatalf("valid mismatch %q ref=%v", w, a.Valid())
		}
		ok, end := a.FirstValue()
		dec := json.NewDecoder(bytes.NewReader(w))
		var raw json.RawMessage
		err := dec.Decode(&raw)
		sok := err == nil
		if ok != sok {
			t.Fatalf("first value mismatch %q ref=%v std err=%v", w, ok, err)
		}
		if ok && int(dec.InputOffset()) != end {
			t.Fatalf("offset mismatch %q ref=%d std=%d", w, end, dec.InputOffset())
		}
		if d == 0 {
			return
		}
		for _, b := range alpha {
			rec(append(w[:len(w):len(w)], b), d-1)
		}
	}
	rec(nil, 4)
	t.Logf("%d strings", n)
}
