package ref

import (
	"bytes"
	"encoding/json"
	"testing"
)

func TestDecodeAgainstStdlib(t *testing.T) {
	alpha := []byte(`[]{}:,"\ 01-.eEtrufalsn` + "x")
	n := 0
	var rec func(w []byte, d int)
	rec = func(w []byte, d int) {
		n++
		v, end, ok := Decode(w)
		dec := json.NewDecoder(bytes.NewReader(w))
		var sv interface{}
		err := dec.Decode(&sv)
		if ok != (err == nil) {
			t.Fatalf("%q: ref ok=%v std err=%v", w, ok, err)
		}
		if ok {
			if end != int(dec.InputOffset()) {
				t.Fatalf("%q: end %d vs %d", w, end, dec.InputOffset())
			}
			sv2, _ := SanitizeTree(v)
			_ = sv2
			if !SameTree(normalize(sv), normalize(sv2)) {
				t.Fatalf("%q: tree %#v vs %#v", w, sv2, sv)
			}
		}
		for _, kind := range []byte{'[', '{'} {
			ms, e2, mok, _ := Members(w, kind)
			if mok {
				if !ok || e2 != end {
					t.Fatalf("%q: members ok but decode %v %d %d", w, ok, e2, end)
				}
				for _, m := range ms {
					if a := Run(w[m.Start:]); true {
						if vok, ve := a.FirstValue(); !vok || ve != m.End-m.Start {
							t.Fatalf("%q: member %+v pda %v %d", w, m, vok, ve)
						}
					}
				}
			}
		}
		if d == 0 {
			return
		}
		for _, b := range alpha {
			rec(append(w[:len(w):len(w)], b), d-1)
		}
	}
	rec([]byte(`{"a`), 4)
	rec([]byte(`[`), 4)
	rec(nil, 3)
	t.Log(n)
}

func normalize(v interface{}) interface{} {
	switch x := v.(type) {
	case []interface{}:
		if x == nil {
			return []interface{}{}
		}
		for i := range x {
			x[i] = normalize(x[i])
		}
	case map[string]interface{}:
		for k := range x {
			x[k] = normalize(x[k])
		}
	}
	return v
}
