// Command harness runs one property check and writes its evidence file.
package main

import (
	"flag"
	"fmt"
	"os"
	"runtime/debug"
	"strings"

	"verifharness/eng"
	"verifharness/props"
)

// libraryPanic reports whether the frame that raised the panic (the first frame after the
// runtime's panic machinery) is library code.
func libraryPanic(stack string) bool {
	lines := strings.Split(stack, "\n")
	seenPanic := false
	for _, l := range lines {
		if strings.HasPrefix(l, "\t") || l == "" {
			continue
		}
		if strings.HasPrefix(l, "panic(") {
			seenPanic = true
			continue
		}
		if !seenPanic || strings.HasPrefix(l, "runtime.") || strings.HasPrefix(l, "runtime/") {
			continue
		}
		return strings.HasPrefix(l, "github.com/willabides/rjson.") || strings.HasPrefix(l, "github.com/willabides/rjson/internal/")
	}
	return false
}

func main() {
	id := flag.String("id", "", "property id")
	tier := flag.String("tier", "quick", "quick|thorough")
	seed := flag.Int64("seed", 0, "seed (only rotates samples/shard order)")
	out := flag.String("out", "", "evidence file")
	replays := flag.String("replays", "/verif/replays", "replay directory")
	known := flag.String("known", "/verif/known_findings.txt", "known findings file")
	head := flag.String("head", "", "repo head description")
	replay := flag.String("replay", "", "replay file to re-execute")
	flag.Parse()
	debug.SetMaxStack(1 << 30)
	if *replay != "" {
		os.Exit(props.ReplayFile(*replay))
	}
	drv, ok := props.Registry[*id]
	if !ok {
		fmt.Fprintf(os.Stderr, "harness: unknown property %q\n", *id)
		os.Exit(2)
	}
	if *out == "" {
		*out = "/verif/evidence/" + *id + ".json"
	}
	r := eng.NewRun(*id, *tier, *seed, *out, *replays, *known)
	r.RepoHead = *head
	// A panic that escapes a driver: if it was raised inside the library (the innermost non-runtime
	// frame belongs to github.com/willabides/rjson) the library panicked on an input the check fed
	// it - a violation of every property (each demands a result). Anything else is a fault of this
	// harness and is not turned into an alarm.
	defer func() {
		if p := recover(); p != nil {
			stack := string(debug.Stack())
			fmt.Fprintf(os.Stderr, "harness: panic: %v\n%s\n", p, stack)
			if libraryPanic(stack) {
				if len(stack) > 3000 {
					stack = stack[:3000]
				}
				r.Violation(eng.Replay{Engine: "crash", Entry: "(see stack)", Sig: fmt.Sprintf("library-panic/%v", p), InputB64: append([]byte(nil), eng.LastBeat()...), Expected: "returns normally", Got: fmt.Sprintf("panic: %v\n%s", p, stack)})
				os.Exit(r.Finish())
			}
			os.Exit(2)
		}
	}()
	r.StartBlockDetector()
	drv(r)
	os.Exit(r.Finish())
}
