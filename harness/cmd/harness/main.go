// Command harness runs one property check and writes its evidence file.
package main

import (
	"flag"
	"fmt"
	"os"
	"runtime/debug"

	"verifharness/eng"
	"verifharness/props"
)

func main() {
	id := flag.String("id", "", "property id")
	tier := flag.String("tier", "quick", "quick|thorough")
	seed := flag.Int64("seed", 0, "seed (only rotates samples/shard order)")
	out := flag.String("out", "", "evidence file")
	replays := flag.String("replays", "/verif/replays", "replay directory")
	known := flag.String("known", "/verif/known_findings.txt", "known findings file")
	head := flag.String("head", "", "repo head description")
	replay := flag.String("replay", "", "replay file to re-execute")
	flag.Parse()
	debug.SetMaxStack(1 << 30)
	if *replay != "" {
		os.Exit(props.ReplayFile(*replay))
	}
	drv, ok := props.Registry[*id]
	if !ok {
		fmt.Fprintf(os.Stderr, "harness: unknown property %q\n", *id)
		os.Exit(2)
	}
	if *out == "" {
		*out = "/verif/evidence/" + *id + ".json"
	}
	r := eng.NewRun(*id, *tier, *seed, *out, *replays, *known)
	r.RepoHead = *head
	drv(r)
	os.Exit(r.Finish())
}
