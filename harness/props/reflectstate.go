package props

import (
	"fmt"
	"hash/fnv"
	"reflect"
	"strings"
	"unsafe"

	"github.com/willabides/rjson"
)

// Canonical object state is read by reflection on unexported field names. A missing field makes
// the key degrade (ok=false): the search then deduplicates on the history itself.

func field(v reflect.Value, name string) (reflect.Value, bool) {
	f := v.FieldByName(name)
	if !f.IsValid() {
		return f, false
	}
	return reflect.NewAt(f.Type(), unsafe.Pointer(f.UnsafeAddr())).Elem(), true
}

// bufferKey is the canonical state of a Buffer: every field of the struct, generically (so that
// a field added by a refactoring is part of the key); for the stack slice the length and whether
// spare capacity exists, and — withContents — a hash of the (stale) entries.
func bufferKey(b *rjson.Buffer, withContents bool) (string, bool) {
	v := reflect.ValueOf(b).Elem()
	if _, ok := field(v, "stackBuf"); !ok {
		return "", false
	}
	var sb strings.Builder
	for i := 0; i < v.NumField(); i++ {
		f := reflect.NewAt(v.Field(i).Type(), unsafe.Pointer(v.Field(i).UnsafeAddr())).Elem()
		fmt.Fprintf(&sb, "%s=", v.Type().Field(i).Name)
		switch f.Kind() {
		case reflect.Slice:
			spare := 0
			if f.Cap() > f.Len() {
				spare = 1
			}
			fmt.Fprintf(&sb, "len%d/spare%d", f.Len(), spare)
			if withContents {
				h := fnv.New64a()
				for k := 0; k < f.Len(); k++ {
					fmt.Fprintf(h, "%v,", f.Index(k).Interface())
				}
				fmt.Fprintf(&sb, "/h%x", h.Sum64())
			}
		case reflect.Int, reflect.Int64, reflect.Int32, reflect.Bool, reflect.String, reflect.Uint, reflect.Uint64:
			fmt.Fprintf(&sb, "%v", f.Interface())
		default:
			fmt.Fprintf(&sb, "%v", f.Kind())
		}
		sb.WriteString(" ")
	}
	return sb.String(), true
}

// bufferLen returns the stack length (for evidence).
func bufferLen(b *rjson.Buffer) int {
	v := reflect.ValueOf(b).Elem()
	if f, ok := field(v, "stackBuf"); ok && f.Kind() == reflect.Slice {
		return f.Len()
	}
	return -1
}

// readerKey is the canonical state of a ValueReader, recursively through the (shim) pool.
func readerKey(vr *rjson.ValueReader) (string, bool) {
	var sb strings.Builder
	ok := readerKeyRec(reflect.ValueOf(vr).Elem(), &sb, 0)
	return sb.String(), ok
}

func readerKeyRec(v reflect.Value, sb *strings.Builder, lvl int) bool {
	if lvl > 12 {
		sb.WriteString("…")
		return true
	}
	if _, ok := field(v, "depth"); !ok {
		return false
	}
	if _, ok := field(v, "pool"); !ok {
		return false
	}
	// every field of the struct, generically (a field added by a refactoring is part of the key)
	for i := 0; i < v.NumField(); i++ {
		name := v.Type().Field(i).Name
		f := reflect.NewAt(v.Field(i).Type(), unsafe.Pointer(v.Field(i).UnsafeAddr())).Elem()
		switch f.Kind() {
		case reflect.Int, reflect.Int8, reflect.Int16, reflect.Int32, reflect.Int64:
			fmt.Fprintf(sb, "%s=%d ", name, f.Int())
		case reflect.Uint, reflect.Uint8, reflect.Uint16, reflect.Uint32, reflect.Uint64:
			fmt.Fprintf(sb, "%s=%d ", name, f.Uint())
		case reflect.Bool:
			fmt.Fprintf(sb, "%s=%v ", name, f.Bool())
		case reflect.String:
			fmt.Fprintf(sb, "%s=%dB ", name, f.Len())
		case reflect.Slice:
			fmt.Fprintf(sb, "%s=%d/%d ", name, f.Len(), f.Cap())
		case reflect.Map:
			fmt.Fprintf(sb, "%s=%v/%d ", name, !f.IsNil(), f.Len())
		case reflect.Ptr, reflect.Interface:
			fmt.Fprintf(sb, "%s=%v ", name, !f.IsNil())
		case reflect.Struct:
			if name == "pool" {
				items, iok := field(f, "Items")
				if !iok {
					return false
				}
				sb.WriteString("pool[")
				for k := 0; k < items.Len(); k++ {
					it := items.Index(k)
					if it.Kind() == reflect.Interface {
						it = it.Elem()
					}
					if it.Kind() == reflect.Ptr && !it.IsNil() {
						sb.WriteString("{")
						if !readerKeyRec(it.Elem(), sb, lvl+1) {
							return false
						}
						sb.WriteString("}")
					}
				}
				sb.WriteString("] ")
			} else if sf, sok := field(f, "stackBuf"); sok {
				fmt.Fprintf(sb, "%s=%d/%d ", name, sf.Len(), sf.Cap())
			} else {
				fmt.Fprintf(sb, "%s=struct ", name)
			}
		default:
			fmt.Fprintf(sb, "%s=%v ", name, f.Kind())
		}
	}
	return true
}
