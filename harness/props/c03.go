package props

import (
	"bytes"
	"encoding/json"
	"fmt"
	"strings"
	"sync/atomic"

	"github.com/willabides/rjson"

	"verifharness/eng"
	"verifharness/ref"
)

func init() {
	Registry["C03"] = c03
	Replayers["C03"] = func(rp *eng.Replay) (bool, string) {
		bad, _, exp, got := checkTree(rp.InputB64, nil)
		return bad != "", fmt.Sprintf("%s expected %s got %s", bad, exp, got)
	}
}

func normTree(v interface{}) interface{} {
	switch x := v.(type) {
	case []interface{}:
		if x == nil {
			return []interface{}{}
		}
		for i := range x {
			x[i] = normTree(x[i])
		}
	case map[string]interface{}:
		for k := range x {
			x[k] = normTree(x[k])
		}
	}
	return v
}

func treeStr(v interface{}) string {
	s := fmt.Sprintf("%#v", v)
	s = strings.ReplaceAll(s, "interface {}", "any")
	if len(s) > 300 {
		s = s[:300] + "..."
	}
	return s
}

// stdTree is encoding/json's view.
func stdTree(w []byte) (v interface{}, p int, ok bool) {
	dec := json.NewDecoder(bytes.NewReader(w))
	if err := dec.Decode(&v); err != nil {
		return nil, 0, false
	}
	return normTree(v), int(dec.InputOffset()), true
}

var treeCollisions, stdLongNumberSkips int64

// hasLongNumber reports whether w contains a run of more than 700 number-literal bytes.
func hasLongNumber(w []byte) bool {
	run := 0
	for _, c := range w {
		if (c >= '0' && c <= '9') || c == '.' || c == 'e' || c == 'E' || c == '-' || c == '+' {
			run++
			if run > 700 {
				return true
			}
		} else {
			run = 0
		}
	}
	return false
}

// checkTree compares ReadValue / ReadObject / ReadArray (package-level and method forms on a
// fresh reader) with the reference decoder, and the reference with encoding/json.
func checkTree(w []byte, _ *ref.PDA) (string, bool, string, string) {
	want, end, ok := ref.Decode(w)
	sv, sp, sok := stdTree(w)
	if ok != sok || (ok && sp != end) {
		return "reference!=encoding/json", true, fmt.Sprintf("ok=%v p=%d", sok, sp), fmt.Sprintf("ok=%v p=%d", ok, end)
	}
	if ok {
		san, collide := ref.SanitizeTree(want)
		if collide {
			atomic.AddInt64(&treeCollisions, 1)
		} else if !ref.SameTree(san, sv) {
			if hasLongNumber(w) {
				// strconv (and so encoding/json) misplaces the decimal point of literals with more than
				// 800 integer digits (DESIGN 11.3 #1); the reference uses exact rounding there
				atomic.AddInt64(&stdLongNumberSkips, 1)
			} else {
				return "reference-tree!=encoding/json", true, treeStr(sv), treeStr(san)
			}
		}
	}
	type res struct {
		v   interface{}
		p   int
		err error
	}
	cmp := func(name string, g res, wantOK bool) (string, bool, string, string) {
		if (g.err == nil) != wantOK {
			return name + "/success", false, fmt.Sprintf("ok=%v", wantOK), fmt.Sprintf("%s p=%d %s", treeStr(g.v), g.p, errStr(g.err))
		}
		if wantOK {
			if g.p != end {
				return name + "/offset", false, fmt.Sprintf("p=%d", end), fmt.Sprintf("p=%d", g.p)
			}
			if !ref.SameTree(g.v, want) {
				return name + "/tree", false, treeStr(want), treeStr(g.v)
			}
		}
		return "", false, "", ""
	}
	v, p, err := rjson.ReadValue(w)
	if b, o, e, g := cmp("ReadValue", res{v, p, err}, ok); b != "" {
		return b, o, e, g
	}
	var vr rjson.ValueReader
	v, p, err = vr.ReadValue(w)
	if b, o, e, g := cmp("ValueReader.ReadValue", res{v, p, err}, ok); b != "" {
		return b, o, e, g
	}
	_, isObj := want.(map[string]interface{})
	_, isArr := want.([]interface{})
	m, p, err := rjson.ReadObject(w)
	var mv interface{}
	if m != nil || err == nil {
		mv = m
	}
	if b, o, e, g := cmp("ReadObject", res{mv, p, err}, ok && isObj); b != "" {
		return b, o, e, g
	}
	var vr2 rjson.ValueReader
	m, p, err = vr2.ReadObject(w)
	mv = nil
	if m != nil || err == nil {
		mv = m
	}
	if b, o, e, g := cmp("ValueReader.ReadObject", res{mv, p, err}, ok && isObj); b != "" {
		return b, o, e, g
	}
	a, p, err := rjson.ReadArray(w)
	var av interface{}
	if a != nil || err == nil {
		av = a
	}
	if b, o, e, g := cmp("ReadArray", res{av, p, err}, ok && isArr); b != "" {
		return b, o, e, g
	}
	var vr3 rjson.ValueReader
	a, p, err = vr3.ReadArray(w)
	av = nil
	if a != nil || err == nil {
		av = a
	}
	if b, o, e, g := cmp("ValueReader.ReadArray", res{av, p, err}, ok && isArr); b != "" {
		return b, o, e, g
	}
	return "", false, "", ""
}

// Menus for the structured-document enumerations.
var (
	leafMenu  = []string{"null", "true", "false", "0", "-12", "1.5", "1e2", `""`, `"a"`, `"\n"`, `"é"`, `"😀"`, `"[\"]{"`, "\"\xff\""}
	keyMenu   = []string{`"a"`, `"b"`, `"\u0061"`, `""`, `"\ud800"`, `"\tx"`, "\"\xff\""}
	leafSmall = []string{"null", "true", "-1.5e1", `"a"`, `"\n"`, `"\u0041b"`}
	keySmall  = []string{`"a"`, `"\u0061"`, `"\u0062"`}
)

const corruptAlpha = "[]{}:,\"\\ 0-et\x00\x1f\x7f"

func c03(r *eng.Run) {
	D := r.Pick(2, 3)
	K := r.Pick(1, 1)
	sp := e1Spec{
		entry:       "ReadValue/ReadObject/ReadArray",
		handWritten: false,
		probe:       func(w []byte) { rjson.ReadValue(w) },
		check:       checkTree,
		refKey:      func(w []byte, a *ref.PDA) string { return a.Key() + ref.StrRefine(w) },
		alive:       func(w []byte, a *ref.PDA) bool { return a.Alive() && a.Phase != ref.PDone },
		digSat:      3,
	}
	res := runE1(r, sp, D, K, r.Pick(250000, 2500000))
	e1Evidence(r, D, K, res)
	coverageReport(r, "handleArrayValues", "handleObjectValues", "appendRemainderOfString", "unescapeStringContent", "readNull", "readBool")

	// (b) E2 documents
	var evals int64
	one := func(text string, fam string) {
		atomic.AddInt64(&evals, 1)
		w := eng.Exact([]byte(text))
		var bad, exp, got string
		var of bool
		pan := guard(func() { bad, of, exp, got = checkTree(w, nil) })
		if pan != "" {
			r.Violation(eng.Replay{Engine: "docs", Entry: "ReadValue", Sig: "panic/" + fam + "/" + shortSig(w), InputB64: w, Expected: "returns normally", Got: "panic: " + pan})
			return
		}
		if of {
			r.Inexhaustive(fmt.Sprintf("oracle disagreement (%s) on %q: std=%s ref=%s", bad, text, exp, got))
			return
		}
		if bad != "" {
			r.Violation(eng.Replay{Engine: "docs", Entry: "ReadValue", Sig: bad + "/" + fam + "/" + shortSig(w), InputB64: w, Expected: exp, Got: got})
		}
	}
	N := r.Pick(3, 4)
	ds := eng.GenDocs(N, leafMenu, keyMenu)
	all := ds.All()
	eng.Parallel(len(all), func(i int) {
		for st := 0; st < 3; st++ {
			one(eng.Style(all[i], st), "tree")
		}
	})
	r.Set("e2_texts_by_nodes", ds.Count())
	// larger trees over the small menus
	N2 := r.Pick(4, 6)
	ds2 := eng.GenDocs(N2, leafSmall, keySmall)
	all2 := ds2.BySize[N2]
	if N2 > 4 {
		all2 = append(all2, ds2.BySize[N2-1]...)
	}
	eng.Parallel(len(all2), func(i int) { one(all2[i], "tree-small-menu") })
	r.Set("e2_small_menu_texts_by_nodes", ds2.Count())
	// distance-1 corruptions of all texts with <= 3 nodes over the small menu + <= 2 nodes over the full menu
	var corr []string
	corr = append(corr, ds2.BySize[1]...)
	corr = append(corr, ds2.BySize[2]...)
	corr = append(corr, ds2.BySize[3]...)
	corr = append(corr, ds.BySize[2]...)
	eng.Parallel(len(corr), func(i int) {
		eng.Corruptions(corr[i], corruptAlpha, func(s string) { one(s, "corruption") })
	})
	deep := 0
	// escaped keys with string values whose lengths sit round size thresholds, nested too
	for _, L := range []int{1, 15, 16, 17, 255, 256, 257, 300, 511, 512, 513, 1000, 2047, 2048, 2049, 4096, 5000} {
		v := strings.Repeat("x", L)
		for _, shape := range []string{`{"k` + "\\" + `te":"%s"}`, `{"k` + "\\" + `te":"%s","k2` + "\\" + `n":"%s"}`, `[{"a` + "\\" + `tb":["%s"]}]`, `{"plainkey":"%s","e` + "\\" + `n":1}`, `["%s","` + "\\" + `n%s"]`} {
			one(strings.ReplaceAll(shape, "%s", v), "string-length-thresholds")
		}
	}
	for _, in := range stringShapeFamily() {
		one(string(in), "string-shapes")
	}
	// every parent/child pairing at the depth boundary: 9998 / 9999 levels of one kind, then
	// parent kind, then child kind
	for _, base := range [][2]string{{"[", "]"}, {`{"k":`, "}"}} {
		for _, lv := range []int{9998, 9999, 10000} {
			for _, parent := range [][2]string{{"[", "]"}, {`{"p":`, "}"}} {
				for _, child := range [][2]string{{"[", "]"}, {`{"c":`, "}"}} {
					t := strings.Repeat(base[0], lv) + parent[0] + child[0] + "1" + child[1] + parent[1] + strings.Repeat(base[1], lv)
					one(t, fmt.Sprintf("depth-boundary/%s%d+%s+%s", base[0], lv, parent[0], child[0]))
					deep++
				}
			}
		}
	}
	// (c) deep family and numbers at the float range limit

	for _, u := range [][2]string{{"[", "]"}, {`{"k":`, "}"}, {`[{"a":`, "}]"}, {`[[],`, "]"}, {`{"a":{},"b":`, "}"}} {
		for _, d := range []int{9999, 10000, 10001} {
			n := d
			if len(u[1]) == 2 {
				n = d / 2
			}
			t := strings.Repeat(u[0], n) + `"x"` + strings.Repeat(u[1], n)
			one(t, fmt.Sprintf("deep/%s/d=%d", u[0], d))
			one(strings.Repeat(u[0], n), fmt.Sprintf("deep-open/%s/d=%d", u[0], d))
			deep += 2
		}
	}
	for _, num := range []string{"1e308", "1e309", "-1e309", "1.7976931348623157e308", "1.7976931348623159e308", "-0", "0e999", "1e-999",
		"9007199254740993", "9007199254740993.0000000000000000000001", "4503599627370497.5", "-0.0000000000000000000000", "4.9406564584124654e-324", "2.4703282292062328e-324", "123456789012345678e-27", "-9.8233876e44", "1e348", "1e-348",
		"9007199254740993." + strings.Repeat("0", 790) + "1", "9007199254740993." + strings.Repeat("0", 782) + "1", "9007199254740993." + strings.Repeat("0", 783) + "1", "9007199254740993." + strings.Repeat("0", 784) + "1", "9007199254740993" + strings.Repeat("0", 900) + "e-900"} {
		for _, shape := range []string{"%s", "[%s]", `{"a":%s}`, `[1,%s,2]`, `{"a":[%s],"b":%s}`, `[[%s]]`} {
			one(strings.ReplaceAll(shape, "%s", num), "number-range")
		}
	}
	for _, d := range relatedNameDocs() {
		one(d, "related-member-names")
	}
	for _, d := range shortStringPairDocs() {
		one(d, "short-string-pairs")
	}
	// the shared hard-number and hard-string pools in every value position
	hn := hardNumbers()
	eng.Parallel(len(hn), func(i int) {
		for _, shape := range []string{"%s", " [%s]", `{"a":%s}`, `[1,%s ,2]`, `{"a":[%s],"b":%s}`} {
			one(strings.ReplaceAll(shape, "%s", hn[i]), "hard-numbers")
		}
	})
	hs := hardStrings()
	eng.Parallel(len(hs), func(i int) {
		for _, shape := range []string{"%s", "[%s]", `{"a":%s}`, `{%s:1}`, `[%s,%s]`, `{%s:%s}`} {
			one(strings.ReplaceAll(shape, "%s", hs[i]), "hard-strings")
		}
	})
	r.Set("hard_numbers", len(hn))
	r.Set("hard_strings", len(hs))
	// long string values with an escape (size hints, capped reservations): 60..200 KiB round the
	// allocator's size classes, escape first / in the middle / last
	for _, L := range []int{60000, 65535, 65536, 65537, 73727, 73728, 73729, 80000, 131072, 200000} {
		x := strings.Repeat("x", L)
		for _, body := range []string{"\\n" + x, x[:L/2] + "\\t" + x[L/2:], x + "\\u00e9", "\\\"" + x + "\\n"} {
			one(`["`+body+`"]`, "long-escaped-string")
			one(`{"k":"`+body+`","z":1}`, "long-escaped-string")
		}
	}
	r.Add("evaluations", int(evals))
	r.Set("e2_documents", int(evals))
	r.Set("e2_deep_family", deep)
	r.Set("key_collisions_after_sanitising", int(atomic.LoadInt64(&treeCollisions)))
	r.Set("stdlib_tree_comparisons_skipped_for_literals_over_700_bytes", int(atomic.LoadInt64(&stdLongNumberSkips)))
	r.Set("rule", e1Rule+" For C03 the configuration is the first end-of-input event in the stack of nested machine invocations of the recursive ValueReader. E2: every JSON text with <= N value nodes over a leaf menu (all scalar kinds, escapes, multi-byte and invalid UTF-8) and a key menu (duplicates by escape, empty, lone surrogate, invalid UTF-8) in three whitespace styles, all distance-1 corruptions of the smaller texts, deep families at 9999..10001, float-range numbers in every position. Oracle: byte-preserving reference decoder (exact tree equality, floats by bit pattern), itself compared with encoding/json after UTF-8 sanitising.")
	r.Sample(map[string]interface{}{"kind": "doc", "text": `{"a":[1.5,"\n"],"\u0061":{"":null}}`, "note": "escaped duplicate key after a nested array"})
	r.Assume("trees are bounded by N nodes and the menus; nesting bound D in the BFS")
}
