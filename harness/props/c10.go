package props

import (
	"bytes"
	"errors"
	"fmt"
	"math"
	"math/big"
	"os"
	"os/exec"
	"strconv"
	"strings"
	"time"

	"github.com/willabides/rjson"

	"verifharness/eng"
	"verifharness/ref"
)

// hostileMenu returns the integers a hostile handler may return at a call given data (the
// slice it was handed). Index 0 is the benign default (decline).
func hostileMenu(data []byte) []int {
	_, exact := ref.Run(data).FirstValue()
	rem := len(data)
	return []int{0, math.MinInt, math.MinInt + 1, -rem - 1, -1, 1, 2, exact - 1, exact, exact + 1, rem / 2, rem - 1, rem, rem + 1, 2 * rem, math.MaxInt32, big32(),
		math.MaxInt - rem - 1, math.MaxInt - rem, math.MaxInt - rem + 1, math.MaxInt - 1, math.MaxInt, math.MaxInt / 2, math.MinInt / 2}
}

// checkHostile runs one traversal with scripted integers and applies C10's clauses.
func checkHostile(kind byte, w []byte, buf *rjson.Buffer, choose func(n int) int) (bad, exp, got string, trace []string) {
	mustErr := false
	var calls []hcall
	var p int
	var err error
	pan := guard(func() {
		calls, p, err = traverse(kind, w, buf, func(i int, data []byte) answer {
			menu := hostileMenu(data)
			c := choose(len(menu))
			n := menu[c]
			trace = append(trace, fmt.Sprint(n))
			if c == 0 {
				return answer{mode: 0}
			}
			// offsets are acted upon for string / array / object members; for literals and
			// numbers the returned integer is ignored by the traversal
			if len(data) > 0 && (data[0] == '"' || data[0] == '[' || data[0] == '{') && (n < 0 || n > len(data)) {
				mustErr = true
			}
			return answer{mode: 2, n: n}
		})
	})
	_ = calls
	if pan != "" {
		return "panic", "returns normally", "panic: " + pan, trace
	}
	if err == nil && (p < 0 || p > len(w)) {
		return "offset-range", fmt.Sprintf("0 <= p <= %d", len(w)), fmt.Sprint(p), trace
	}
	if mustErr && err == nil {
		return "out-of-range-offset-accepted", "error (a handler offset did not fit inside the input)", fmt.Sprintf("p=%d nil", p), trace
	}
	return "", "", "", trace
}

func replayHostile(rp *eng.Replay) (bool, string) {
	kind := byte('[')
	if k, _ := rp.Extra["kind"].(string); k == "{" {
		kind = '{'
	}
	if rp.Engine == "api" {
		bad, got := apiSweep(rp.InputB64)
		return bad != "", bad + " " + got
	}
	var bad, exp, got string
	eng.ReplayChoices(func(c *eng.Chooser) { bad, exp, got, _ = checkHostile(kind, rp.InputB64, nil, c.Choose) }, rp.Choices)
	return bad != "", fmt.Sprintf("%s expected %s got %s", bad, exp, got)
}

// exportedDriven lists the exported API the sweep drives; it is compared with the export set of
// the working tree so that a new export cannot be forgotten silently.
var exportedDriven = []string{"HandleObjectValues", "HandleArrayValues", "SkipValue", "SkipValueFast", "UnescapeStringContent", "Valid",
	"StdLibCompatibleString", "StdLibCompatibleStringBytes", "StdLibCompatibleSlice", "StdLibCompatibleMap",
	"ReadUint64", "ReadUint32", "ReadInt64", "ReadInt32", "ReadInt", "ReadUint", "ReadFloat64", "ReadStringBytes", "ReadString", "ReadBool", "ReadNull",
	"DecodeBool", "DecodeFloat64", "DecodeInt64", "DecodeInt32", "DecodeInt", "DecodeUint64", "DecodeUint32", "DecodeUint", "DecodeString",
	"ReadValue", "ReadObject", "ReadArray", "NextToken", "NextTokenType",
	"ValueReader", "Buffer", "TokenType", "ObjectValueHandler", "ObjectValueHandlerFunc", "ArrayValueHandler", "ArrayValueHandlerFunc",
	"InvalidType", "NullType", "StringType", "NumberType", "TrueType", "FalseType", "ObjectStartType", "ObjectEndType", "ArrayStartType", "ArrayEndType", "CommaType", "ColonType"}

var sweepReader rjson.ValueReader
var sweepBuf rjson.Buffer

// apiSweep calls every exported function on w under the panic / offset-range monitors.
// sweepTight turns the destination-capacity menu on for inputs longer than 5 bytes (the pools of
// hard inputs; the E1 nodes run it on the short inputs only).
var sweepTight bool

func apiSweep(w []byte) (bad, got string) {
	var name string
	chk := func(n string, p int, err error) {
		if bad == "" && err == nil && (p < 0 || p > len(w)) {
			bad, got = n+"/offset-range", fmt.Sprintf("p=%d len=%d", p, len(w))
		}
	}
	pan := guard(func() {
		name = "Valid"
		rjson.Valid(w, nil)
		rjson.Valid(w, &sweepBuf)
		name = "SkipValue"
		p, err := rjson.SkipValue(w, &sweepBuf)
		chk(name, p, err)
		p, err = rjson.SkipValue(w, nil)
		chk(name+"(nil buffer)", p, err)
		p, err = rjson.SkipValue(w, &rjson.Buffer{})
		chk(name+"(fresh buffer)", p, err)
		rjson.Valid(w, &rjson.Buffer{})
		name = "SkipValueFast"
		p, err = rjson.SkipValueFast(w, &sweepBuf)
		chk(name, p, err)
		p, err = rjson.SkipValueFast(w, nil)
		chk(name, p, err)
		p, err = rjson.SkipValueFast(w, &rjson.Buffer{})
		chk(name+"(fresh buffer)", p, err)
		name = "ReadValue"
		_, p, err = rjson.ReadValue(w)
		chk(name, p, err)
		name = "ValueReader.ReadValue"
		_, p, err = sweepReader.ReadValue(w)
		chk(name, p, err)
		name = "ReadObject"
		_, p, err = rjson.ReadObject(w)
		chk(name, p, err)
		_, p, err = sweepReader.ReadObject(w)
		chk(name, p, err)
		name = "ReadArray"
		_, p, err = rjson.ReadArray(w)
		chk(name, p, err)
		_, p, err = sweepReader.ReadArray(w)
		chk(name, p, err)
		name = "HandleArrayValues"
		p, err = rjson.HandleArrayValues(w, rjson.ArrayValueHandlerFunc(func([]byte) (int, error) { return 0, nil }), &sweepBuf)
		chk(name, p, err)
		p, err = rjson.HandleArrayValues(w, rjson.ArrayValueHandlerFunc(func([]byte) (int, error) { return 0, nil }), nil)
		chk(name+"(nil buffer)", p, err)
		p, err = rjson.HandleArrayValues(w, rjson.ArrayValueHandlerFunc(func([]byte) (int, error) { return 0, nil }), &rjson.Buffer{})
		chk(name+"(fresh buffer)", p, err)
		p, err = rjson.HandleArrayValues(w, &sweepReader, nil)
		chk(name+"(ValueReader)", p, err)
		name = "HandleObjectValues"
		p, err = rjson.HandleObjectValues(w, rjson.ObjectValueHandlerFunc(func(_, _ []byte) (int, error) { return 0, nil }), &sweepBuf)
		chk(name, p, err)
		p, err = rjson.HandleObjectValues(w, rjson.ObjectValueHandlerFunc(func(_, _ []byte) (int, error) { return 0, nil }), nil)
		chk(name+"(nil buffer)", p, err)
		p, err = rjson.HandleObjectValues(w, rjson.ObjectValueHandlerFunc(func(_, _ []byte) (int, error) { return 0, nil }), &rjson.Buffer{})
		chk(name+"(fresh buffer)", p, err)
		p, err = rjson.HandleObjectValues(w, &rjson.ValueReader{}, nil)
		chk(name+"(ValueReader)", p, err)
		name = "ValueReader.HandleArrayValue"
		p, err = (&rjson.ValueReader{}).HandleArrayValue(w)
		chk(name, p, err)
		name = "ValueReader.HandleObjectValue"
		p, err = (&rjson.ValueReader{}).HandleObjectValue(w, w)
		chk(name, p, err)
		name = "Read*"
		_, p, err = rjson.ReadUint64(w)
		chk("ReadUint64", p, err)
		_, p, err = rjson.ReadUint32(w)
		chk("ReadUint32", p, err)
		_, p, err = rjson.ReadInt64(w)
		chk("ReadInt64", p, err)
		_, p, err = rjson.ReadInt32(w)
		chk("ReadInt32", p, err)
		_, p, err = rjson.ReadInt(w)
		chk("ReadInt", p, err)
		_, p, err = rjson.ReadUint(w)
		chk("ReadUint", p, err)
		_, p, err = rjson.ReadFloat64(w)
		chk("ReadFloat64", p, err)
		_, p, err = rjson.ReadStringBytes(w, nil)
		chk("ReadStringBytes", p, err)
		_, p, err = rjson.ReadString(w, nil)
		chk("ReadString", p, err)
		_, p, err = rjson.ReadBool(w)
		chk("ReadBool", p, err)
		p, err = rjson.ReadNull(w)
		chk("ReadNull", p, err)
		name = "Decode*"
		var b bool
		var f float64
		var i64 int64
		var i32 int32
		var i int
		var u64 uint64
		var u32 uint32
		var u uint
		var s string
		p, err = rjson.DecodeBool(w, &b)
		chk("DecodeBool", p, err)
		p, err = rjson.DecodeFloat64(w, &f)
		chk("DecodeFloat64", p, err)
		p, err = rjson.DecodeInt64(w, &i64)
		chk("DecodeInt64", p, err)
		p, err = rjson.DecodeInt32(w, &i32)
		chk("DecodeInt32", p, err)
		p, err = rjson.DecodeInt(w, &i)
		chk("DecodeInt", p, err)
		p, err = rjson.DecodeUint64(w, &u64)
		chk("DecodeUint64", p, err)
		p, err = rjson.DecodeUint32(w, &u32)
		chk("DecodeUint32", p, err)
		p, err = rjson.DecodeUint(w, &u)
		chk("DecodeUint", p, err)
		p, err = rjson.DecodeString(w, &s, nil)
		chk("DecodeString", p, err)
		name = "NextToken"
		_, p, err = rjson.NextToken(w)
		chk(name, p, err)
		_, p, err = rjson.NextTokenType(w)
		chk("NextTokenType", p, err)
		name = "UnescapeStringContent"
		_, p, err = rjson.UnescapeStringContent(w, nil)
		chk(name, p, err)
		name = "StdLibCompatible*"
		_ = rjson.StdLibCompatibleString(string(w))
		_ = rjson.StdLibCompatibleStringBytes(w, nil)
		// destinations whose spare capacity is just short of / exactly / just above what the call
		// needs (a write that trusts the input width instead of the output width)
		name = "destination-capacity"
		for extra := 0; extra <= 4 && (len(w) <= 5 || sweepTight); extra++ {
			for _, pre := range []int{0, 2} {
				for _, base := range []int{0, len(w)} {
					mk := func() []byte { return append(make([]byte, 0, pre+base+extra), "xy"[:pre]...) }
					_ = rjson.StdLibCompatibleStringBytes(w, mk())
					_, p, err = rjson.ReadStringBytes(w, mk())
					chk("ReadStringBytes(tight destination)", p, err)
					_, p, err = rjson.UnescapeStringContent(w, mk())
					chk("UnescapeStringContent(tight destination)", p, err)
					sb := mk()
					_, p, err = rjson.ReadString(w, &sb)
					chk("ReadString(tight scratch)", p, err)
				}
			}
		}
		_ = rjson.StdLibCompatibleSlice([]interface{}{string(w), []interface{}{string(w)}, map[string]interface{}{string(w): string(w)}})
		_ = rjson.StdLibCompatibleMap(map[string]interface{}{string(w): []interface{}{string(w)}})
	})
	if pan != "" {
		return name + "/panic", pan
	}
	return bad, got
}

func c10(r *eng.Run) {
	if len(os.Args) > 0 && os.Getenv("VERIF_C10_SCALE_CHILD") != "" {
		c10ScaleChild()
		return
	}
	r.StartWatchdog(120 * time.Second)
	D := r.Pick(2, 3)
	K := 1
	var results []e1Result
	// (ii) hostile handler integers over the handler node sets
	hostileExecs := 0
	dev := r.Pick(1, 2)
	for _, kind := range []byte{'[', '{'} {
		kind := kind
		seenClass := map[string]bool{}
		res := handlerNodes(r, kind, D, K, r.Pick(150000, 1500000), func(w []byte, a *ref.PDA, nCalls int) {
			eng.Beat(w)
			if nCalls == 0 {
				return
			}
			cls := fmt.Sprintf("%s|%s|%d", a.Key(), eng.ClassSuffix(w, 1), nCalls)
			if seenClass[cls] {
				return
			}
			seenClass[cls] = true
			wc := eng.Exact(w)
			for _, buf := range []*rjson.Buffer{nil, &sweepBuf} {
				st := eng.ExploreChoices(func(c *eng.Chooser) {
					bad, exp, got, trace := checkHostile(kind, wc, buf, c.Choose)
					if bad != "" {
						sig := bad + "/" + entryOf(kind)
						if bad == "panic" && strings.Contains(got, "index out of range") && hasHuge(trace) {
							sig = "panic/handler-offset-overflow/" + entryOf(kind)
						}
						r.Violation(eng.Replay{Engine: "handler", Entry: entryOf(kind), Sig: sig, InputB64: wc, Choices: append([]int(nil), c.Trace...), Expected: exp, Got: got,
							Extra: map[string]interface{}{"kind": string(kind), "handler_returns": trace}})
					}
				}, 1, dev)
				hostileExecs += st.Executions
			}
		})
		results = append(results, res)
		r.Set("hostile_node_classes_"+entryOf(kind), len(seenClass))
	}
	// hostile answers on wider documents too (up to N member nodes, <= 2 hostile answers)
	{
		ds := eng.GenDocs(r.Pick(4, 5), []string{"null", "-1.5e1", `"a` + "\\" + `n"`}, []string{`"k"`})
		var texts []string
		for n := 2; n < len(ds.BySize); n++ {
			texts = append(texts, ds.BySize[n]...)
		}
		for _, t := range texts {
			w := eng.Exact([]byte(eng.Style(t, 1)))
			kind := byte('[')
			if strings.HasPrefix(t, "{") {
				kind = '{'
			}
			eng.Beat(w)
			st := eng.ExploreChoices(func(c *eng.Chooser) {
				bad, exp, got, trace := checkHostile(kind, w, nil, c.Choose)
				if bad != "" {
					r.Violation(eng.Replay{Engine: "handler", Entry: entryOf(kind), Sig: bad + "/doc/" + entryOf(kind), InputB64: w, Choices: append([]int(nil), c.Trace...), Expected: exp, Got: got,
						Extra: map[string]interface{}{"kind": string(kind), "handler_returns": trace}})
				}
			}, 1, r.Pick(1, 2))
			hostileExecs += st.Executions
		}
		r.Set("hostile_document_texts", len(texts))
	}
	// (i)+(iv) every exported function on every node of a generic exploration (all dead
	// children included: those are the hostile inputs)
	apiRuns := 0
	sp := e1Spec{
		entry: "all exported functions",
		// the implementation half of the node key: the configurations of all machines at end of input
		probes: []func(w []byte){
			func(w []byte) { rjson.SkipValue(w, nil) },
			func(w []byte) { rjson.SkipValueFast(w, nil) },
			func(w []byte) {
				rjson.HandleArrayValues(w, rjson.ArrayValueHandlerFunc(func([]byte) (int, error) { return 0, nil }), nil)
			},
			func(w []byte) {
				rjson.HandleObjectValues(w, rjson.ObjectValueHandlerFunc(func(_, _ []byte) (int, error) { return 0, nil }), nil)
			},
			func(w []byte) { rjson.ReadStringBytes(w, nil) },
		},
		check: func(w []byte, a *ref.PDA) (string, bool, string, string) {
			eng.Beat(w)
			apiRuns++
			wc := eng.Exact(w)
			bad, got := apiSweep(wc)
			if !bytes.Equal(wc, w) {
				return "input-modified", false, fmt.Sprintf("%q", w), fmt.Sprintf("%q", wc)
			}
			if bad != "" {
				r.Violation(eng.Replay{Engine: "api", Entry: bad, Sig: bad, InputB64: wc, Expected: "returns normally with 0<=p<=len when err==nil", Got: got})
			}
			return "", false, "", ""
		},
		handWritten: true,
		refKey:      func(w []byte, a *ref.PDA) string { return a.Key() + ref.StrRefine(w) },
		noPump:      true,
		// the non-validating machines stay "alive" on garbage: only well-formed prefixes are
		// expanded (all 256 children of each are still run, dead ones included)
		refAliveOnly: true,
	}
	if !r.Thorough() {
		sp.probes = sp.probes[:2] // quick: the two skip machines
	}
	res := runE1(r, sp, 1, K, r.Pick(40000, 400000))
	results = append(results, res)
	for t := 0; t < 256; t++ {
		_ = rjson.TokenType(t).String()
	}
	// inputs whose hazards are not byte-level state: strings with two escapes at every distance,
	// float literals on every conversion path (halfway points, thresholds, >800 digits)
	extra := twoEscapeStrings()
	for q := -360; q <= 360; q++ {
		extra = append(extra, []byte("1e"+strconv.Itoa(q)), []byte("-9.5E"+strconv.Itoa(q)), []byte("[12345678901234567890e"+strconv.Itoa(q)+"]"))
	}
	for _, be := range []int{1, 52, 1000, 1023, 1024, 2046} {
		for _, m := range []uint64{0, 1, 1<<52 - 1} {
			bits := uint64(be)<<52 | m
			f, next := math.Float64frombits(bits), math.Float64frombits(bits+1)
			if f == 0 || math.IsInf(next, 0) {
				continue
			}
			h := new(big.Float).SetPrec(2200).Add(new(big.Float).SetPrec(2200).SetFloat64(f), new(big.Float).SetPrec(2200).SetFloat64(next))
			h.Quo(h, big.NewFloat(2))
			for _, v := range halfwayVariants(trimDec(h.Text('f', 1080))) {
				extra = append(extra, []byte(v), []byte("[-"+v+"]"))
			}
		}
	}
	{
		h := new(big.Float).SetPrec(2200).SetMantExp(big.NewFloat(1), -1075)
		for _, v := range halfwayVariants(trimDec(h.Text('f', 1080))) {
			extra = append(extra, []byte(v), []byte(`{"a":-`+v+`}`))
		}
	}
	// digit strings round every power of five behind leading zeros (table-driven digit counts in
	// the multiprecision fallback index a fixed array)
	for k := 1; k <= 60; k++ {
		p5 := new(big.Int).Exp(big.NewInt(5), big.NewInt(int64(k)), nil)
		for _, dl := range []int64{-1, 0, 1, 26} {
			ds := new(big.Int).Add(p5, big.NewInt(dl)).String()
			for z := 0; z <= 12; z++ {
				extra = append(extra, []byte("0."+strings.Repeat("0", z)+ds), []byte("["+ds+"e-"+strconv.Itoa(z+len(ds))+"]"))
			}
		}
	}
	// the shared hard-number / hard-string pools, complete and cut off right after the token
	for _, n := range hardNumbers() {
		extra = append(extra, []byte(n), []byte(" "+n), []byte("["+n), []byte(`{"a":`+n+`}`))
	}
	for _, hs := range hardStrings() {
		extra = append(extra, []byte(hs), []byte(hs[:len(hs)-1]), []byte(hs[1:len(hs)-1]), []byte("["+hs+"]"), []byte("{"+hs+":"+hs+"}"))
	}
	// every push site of the machines at every stack size up to 70 levels
	extra = append(extra, depthSiteFamily(70)...)
	sweepTight = true
	for _, w := range extra {
		wc := eng.Exact(w)
		eng.Beat(wc)
		apiRuns++
		if bad, got := apiSweep(wc); bad != "" {
			r.Violation(eng.Replay{Engine: "api", Entry: bad, Sig: bad, InputB64: wc, Expected: "returns normally with 0<=p<=len when err==nil", Got: got})
		}
	}
	sweepTight = false
	r.Set("reentrant_handler_runs", c10Reentrant(r))
	r.Set("buffer_handover_runs", c10BufferHandover(r))
	r.Set("api_sweep_extra_inputs", len(extra))
	e1Evidence(r, D, K, results...)
	r.Set("hostile_handler_executions", hostileExecs)
	r.Set("hostile_deviation_bound", dev)
	r.Set("api_sweep_nodes", apiRuns)
	r.Add("evaluations", hostileExecs)
	c10Exports(r)
	c10Scale(r)
	r.Set("rule", e1Rule+" C10: (a) at every class of handler node a hostile handler returns, at each call, one of 24 integers (negative, beyond the end, mid-token, near the integer limits) — all vectors with <= bound hostile answers, nil and reused buffer; clauses: no panic, 0<=p<=len when err==nil, out-of-range offsets on string/array/object members yield an error; (b) every exported function runs on every node (dead children included) of a generic exploration under the panic / offset-range / input-immutability monitors; (c) scale inputs (nesting 10^4+1..10^6 in bracket mixtures, multi-megabyte single-token runs) through every entry point in a memory-limited subprocess.")
	r.Sample(map[string]interface{}{"kind": "hostile", "input": `[1,  [1],2]`, "handler_returns": []string{"0", "9223372036854775807"}})
	r.Assume("for literal and number members the traversal ignores the returned integer, so only offsets on string/array/object members are required to be range-checked")
}

func hasHuge(trace []string) bool {
	for _, t := range trace {
		if len(t) >= 18 && t[0] != '-' {
			return true
		}
	}
	return false
}

// c10Exports compares the driven export list with the working tree's export set (written by
// the check driver from `go doc`).
func c10Exports(r *eng.Run) {
	b, err := os.ReadFile(os.Getenv("VERIF_WORK") + "/exports.txt")
	if err != nil {
		r.Note("export set not available; driver list not compared")
		return
	}
	driven := map[string]bool{}
	for _, n := range exportedDriven {
		driven[n] = true
	}
	var missing []string
	n := 0
	for _, name := range strings.Fields(string(b)) {
		n++
		if !driven[name] {
			missing = append(missing, name)
		}
	}
	r.Set("exported_identifiers", n)
	if len(missing) > 0 {
		r.Set("exported_not_driven", missing)
		r.Inexhaustive(fmt.Sprintf("exported identifiers not in the driver list: %v", missing))
	}
}

// ---- scale inputs (subprocess) ---------------------------------------------------------------

func scaleInputs(thorough bool) map[string][]byte {
	out := map[string][]byte{}
	depths := []int{10001, 100000}
	if thorough {
		depths = append(depths, 1000000)
	}
	units := map[string][2]string{"arr": {"[", "]"}, "obj": {`{"a":`, "}"}, "arrobj": {`[{"a":`, "}]"}, "objarr": {`{"a":[`, "]}"}, "arr-sib": {"[[],", "]"}, "obj-sib": {`{"a":{},"b":`, "}"}}
	for name, u := range units {
		for _, d := range depths {
			n := d
			if len(u[1]) == 2 {
				n = d / 2
			}
			open := bytes.Repeat([]byte(u[0]), n)
			// unterminated, terminated with a scalar, terminated and closed
			out[fmt.Sprintf("%s/d=%d/open", name, d)] = open
			closed := append(append(append([]byte{}, open...), '1'), bytes.Repeat([]byte(u[1]), n)...)
			out[fmt.Sprintf("%s/d=%d/closed", name, d)] = closed
		}
	}
	// finished siblings before every level (a recycled child reader is used at each level): far
	// beyond the limit, where unbounded recursion would exhaust the stack
	for name, u := range map[string][2]string{"arr-sib": {"[[],", "]"}, "obj-sib": {`{"a":{},"b":`, "}"}, "arr-sib2": {`[[1],[`, "]]"}} {
		out[fmt.Sprintf("%s/d=3000000/open", name)] = bytes.Repeat([]byte(u[0]), 3000000)
	}
	size := 1 << 20
	if thorough {
		size = 4 << 20
	}
	out["digits"] = bytes.Repeat([]byte("7"), size)
	out["frac"] = append([]byte("0."), bytes.Repeat([]byte("3"), size)...)
	out["exp"] = append([]byte("1e"), bytes.Repeat([]byte("9"), size)...)
	out["string"] = append(append([]byte(`"`), bytes.Repeat([]byte("x"), size)...), '"')
	out["escapes"] = append(append([]byte(`"`), bytes.Repeat([]byte(`\n`), size/2)...), '"')
	out["uescapes"] = append(append([]byte(`"`), bytes.Repeat([]byte(U("d83d")+U("de00")), size/12)...), '"')
	out["ws"] = bytes.Repeat([]byte(" "), size)
	out["ws-then-value"] = append(bytes.Repeat([]byte("\n"), size), '1')
	out["wide-array"] = append(append([]byte("["), bytes.Repeat([]byte("1,"), size/2)...), "1]"...)
	out["closers"] = bytes.Repeat([]byte("]"), size)
	out["commas"] = append([]byte("["), bytes.Repeat([]byte(","), size)...)
	out["invalid-utf8"] = append(append([]byte(`"`), bytes.Repeat([]byte{0xff}, size)...), '"')
	return out
}

// c10ScaleChild runs in the memory-limited subprocess.
func c10ScaleChild() {
	thorough := os.Getenv("VERIF_C10_SCALE_CHILD") == "thorough"
	ins := scaleInputs(thorough)
	names := make([]string, 0, len(ins))
	for n := range ins {
		names = append(names, n)
	}
	sortStrings(names)
	for _, n := range names {
		w := ins[n]
		fmt.Printf("SCALE-BEGIN %s len=%d\n", n, len(w))
		orig := append([]byte(nil), w...)
		bad, got := apiSweepScale(w)
		if bad == "" && !bytes.Equal(orig, w) {
			bad, got = "input-modified", ""
		}
		if bad != "" {
			fmt.Printf("SCALE-BAD %s %s %s\n", n, bad, got)
		}
		fmt.Printf("SCALE-END %s\n", n)
	}
	fmt.Println("SCALE-DONE")
	os.Exit(0)
}

// apiSweepScale is apiSweep without the quadratic helpers on multi-megabyte inputs.
func apiSweepScale(w []byte) (string, string) { return apiSweep(w) }

func sortStrings(s []string) {
	for i := 1; i < len(s); i++ {
		for j := i; j > 0 && s[j] < s[j-1]; j-- {
			s[j], s[j-1] = s[j-1], s[j]
		}
	}
}

func c10Scale(r *eng.Run) {
	exe, err := os.Executable()
	if err != nil {
		r.Inexhaustive("cannot locate own executable for the scale subprocess")
		return
	}
	cmd := exec.Command("/bin/bash", "-c", "ulimit -v 16000000; exec \"$0\" -id C10", exe)
	cmd.Env = append(os.Environ(), "VERIF_C10_SCALE_CHILD="+r.Tier, "GOMEMLIMIT=12GiB")
	var out bytes.Buffer
	cmd.Stdout = &out
	cmd.Stderr = &out
	done := make(chan error, 1)
	if err := cmd.Start(); err != nil {
		r.Inexhaustive("cannot start the scale subprocess: " + err.Error())
		return
	}
	go func() { done <- cmd.Wait() }()
	var werr error
	timedOut := false
	select {
	case werr = <-done:
	case <-time.After(20 * time.Minute):
		_ = cmd.Process.Kill()
		timedOut = true
	}
	text := out.String()
	n := strings.Count(text, "SCALE-END")
	r.Set("scale_inputs_completed", n)
	r.Add("evaluations", n)
	last := ""
	for _, l := range strings.Split(text, "\n") {
		if strings.HasPrefix(l, "SCALE-BEGIN ") {
			last = strings.TrimPrefix(l, "SCALE-BEGIN ")
		}
		if strings.HasPrefix(l, "SCALE-BAD ") {
			r.Violation(eng.Replay{Engine: "scale", Entry: "all exported functions", Sig: "scale/" + l, Expected: "returns normally", Got: l})
		}
	}
	switch {
	case strings.Contains(text, "SCALE-DONE"):
	case timedOut:
		r.Violation(eng.Replay{Engine: "scale", Entry: "all exported functions", Sig: "scale/non-termination/" + last, Expected: "terminates", Got: "still running after 20 minutes on scale input " + last})
	case strings.Contains(text, "fatal error: stack overflow") || strings.Contains(text, "goroutine stack exceeds"):
		r.Violation(eng.Replay{Engine: "scale", Entry: "all exported functions", Sig: "scale/stack-overflow/" + last, Expected: "returns normally", Got: "process crashed with a stack overflow on scale input " + last})
	case strings.Contains(text, "out of memory") || strings.Contains(text, "cannot allocate memory"):
		// memory exhaustion under the 16 GB cap on a few-megabyte input is super-linear memory
		// use: that is C20's subject; for C10 it crashes the process
		r.Violation(eng.Replay{Engine: "scale", Entry: "all exported functions", Sig: "scale/out-of-memory/" + last, Expected: "returns normally", Got: "process ran out of memory (16 GB cap) on scale input " + last})
	default:
		r.Inexhaustive(fmt.Sprintf("scale subprocess ended abnormally (%v) after %d inputs, last %s; output tail: %s", werr, n, last, tail(text, 300)))
	}
	r.Sample(map[string]interface{}{"kind": "scale", "input": `{"a":[ repeated 500000 times, then 1, then closers`, "through": "every exported function"})
}

func tail(s string, n int) string {
	if len(s) > n {
		return s[len(s)-n:]
	}
	return s
}

var _ = errors.New

// big32 is 2^32 where int is 64 bits wide and MaxInt-7 on 32-bit targets.
func big32() int {
	v := uint64(1) << 32
	if uint64(int(v)) != v {
		return math.MaxInt - 7
	}
	return int(v)
}

// c10Reentrant: handlers that re-enter the library from inside a traversal with the very Buffer
// (and ValueReader) of the enclosing call, every entry point at every nesting of two; each such
// call must return (the blocked-call detector reports one that does not) and report sane offsets.
func c10Reentrant(r *eng.Run) int {
	docs := []string{`[1,[2,{"a":[3]}],"x",{"b":null}]`, `{"a":[1,[2]],"b":{"c":"x"},"d":3}`, `[[[[1]]]]`, `{"k":{"k":{"k":1}}}`, `[]`, `{}`, `[1,`, `{"a":[}`, ` [ "\\n" , true ] `}
	inner := []string{"SkipValue", "SkipValueFast", "Valid", "HandleArrayValues", "HandleObjectValues", "ReadValue", "decline"}
	runs := 0
	for _, doc := range docs {
		w := eng.Exact([]byte(doc))
		for _, a := range inner {
			for _, b := range inner {
				for _, shared := range []bool{true, false} {
					eng.Beat(w)
					runs++
					buf := &rjson.Buffer{}
					var vr rjson.ValueReader
					depth := 0
					var bad, got string
					var act func(d []byte) (int, error)
					act = func(d []byte) (int, error) {
						which := a
						if depth > 0 {
							which = b
						}
						ib := buf
						if !shared {
							ib = nil
						}
						var p int
						var err error
						switch which {
						case "decline":
							return 0, nil
						case "SkipValue":
							p, err = rjson.SkipValue(d, ib)
						case "SkipValueFast":
							p, err = rjson.SkipValueFast(d, ib)
						case "Valid":
							rjson.Valid(d, ib)
							return 0, nil
						case "ReadValue":
							_, p, err = vr.ReadValue(d)
						case "HandleArrayValues", "HandleObjectValues":
							if depth >= 2 {
								return 0, nil
							}
							depth++
							if which == "HandleArrayValues" {
								p, err = rjson.HandleArrayValues(d, rjson.ArrayValueHandlerFunc(act), ib)
							} else {
								p, err = rjson.HandleObjectValues(d, rjson.ObjectValueHandlerFunc(func(_, d2 []byte) (int, error) { return act(d2) }), ib)
							}
							depth--
						}
						if err == nil && (p < 0 || p > len(d)) && bad == "" {
							bad, got = which+"(inside a handler)/offset-range", fmt.Sprintf("p=%d len=%d", p, len(d))
						}
						if err != nil {
							return 0, nil // the inner call could not use this member: decline it
						}
						return p, nil
					}
					pan := guard(func() {
						var p int
						var err error
						if doc[0] == '{' || doc[1] == '{' {
							p, err = rjson.HandleObjectValues(w, rjson.ObjectValueHandlerFunc(func(_, d2 []byte) (int, error) { return act(d2) }), buf)
						} else {
							p, err = rjson.HandleArrayValues(w, rjson.ArrayValueHandlerFunc(act), buf)
						}
						if err == nil && (p < 0 || p > len(w)) && bad == "" {
							bad, got = "Handle*Values(re-entrant handler)/offset-range", fmt.Sprintf("p=%d len=%d", p, len(w))
						}
					})
					if pan != "" {
						bad, got = "Handle*Values(re-entrant handler)/panic", pan
					}
					if bad != "" {
						r.Violation(eng.Replay{Engine: "api", Entry: bad, Sig: bad + "/" + a + "+" + b, InputB64: w, Expected: "returns normally with 0<=p<=len when err==nil", Got: got})
					}
				}
			}
		}
	}
	return runs
}

// c10BufferHandover: one Buffer used by one entry point on a document nested d1 deep, then by
// another (or the same) entry point on a document nested d2 > d1 deep, for every ordered pair of
// the five Buffer-taking entry points and every (d1, d2) with d1 <= 20, d2 - d1 <= 8 (also after a
// failed first call): whatever length / capacity / contents the first leaves, the second returns.
func c10BufferHandover(r *eng.Run) int {
	type ep struct {
		name string
		f    func(w []byte, b *rjson.Buffer) (int, error)
	}
	decl := rjson.ArrayValueHandlerFunc(func([]byte) (int, error) { return 0, nil })
	declO := rjson.ObjectValueHandlerFunc(func(_, _ []byte) (int, error) { return 0, nil })
	eps := []ep{
		{"Valid", func(w []byte, b *rjson.Buffer) (int, error) { rjson.Valid(w, b); return 0, nil }},
		{"SkipValue", func(w []byte, b *rjson.Buffer) (int, error) { return rjson.SkipValue(w, b) }},
		{"SkipValueFast", func(w []byte, b *rjson.Buffer) (int, error) { return rjson.SkipValueFast(w, b) }},
		{"HandleArrayValues", func(w []byte, b *rjson.Buffer) (int, error) { return rjson.HandleArrayValues(w, decl, b) }},
		{"HandleObjectValues", func(w []byte, b *rjson.Buffer) (int, error) {
			return rjson.HandleObjectValues(append([]byte(`{"k":`), append(append([]byte(nil), w...), '}')...), declO, b)
		}},
	}
	doc := func(d int, broken bool) []byte {
		s := strings.Repeat("[", d) + "1" + strings.Repeat("]", d)
		if d%2 == 1 {
			s = strings.Repeat(`[{"a":`, d/2) + "[2]" + strings.Repeat("}]", d/2)
		}
		if broken {
			s = s[:len(s)-d/2-1]
		}
		return eng.Exact([]byte(s))
	}
	runs := 0
	for d1 := 1; d1 <= 20; d1++ {
		for d2 := d1 + 1; d2 <= d1+8; d2++ {
			for _, broken := range []bool{false, true} {
				w1, w2 := doc(d1, broken), doc(d2, false)
				for _, a := range eps {
					for _, b := range eps {
						runs++
						eng.Beat(w2)
						var buf rjson.Buffer
						var p int
						var err error
						pan := guard(func() {
							a.f(w1, &buf)
							p, err = b.f(w2, &buf)
						})
						bad, got := "", ""
						if pan != "" {
							bad, got = b.name+"(Buffer last used by "+a.name+")/panic", pan
						} else if err == nil && (p < 0 || p > len(w2)+6) {
							bad, got = b.name+"(Buffer last used by "+a.name+")/offset-range", fmt.Sprint(p)
						}
						if bad != "" {
							r.Violation(eng.Replay{Engine: "api", Entry: bad, Sig: fmt.Sprintf("%s/d1=%d/d2=%d/broken=%v", bad, d1, d2, broken), InputB64: w2, History: []string{a.name + " on " + string(w1), b.name + " on " + string(w2)}, Expected: "returns normally with 0<=p<=len when err==nil", Got: got})
						}
					}
				}
			}
		}
	}
	return runs
}
