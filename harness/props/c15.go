package props

import (
	"fmt"
	"os"
	"strings"

	"github.com/willabides/rjson"
	"github.com/willabides/rjson/verifhook/vsync"

	"verifharness/eng"
	"verifharness/ref"
)

func init() {
	Registry["C15"] = c15
	Replayers["C15"] = func(rp *eng.Replay) (bool, string) {
		sys := newReaderSys(nil, false)
		sys.quiet = true
		if l, ok := rp.Extra["lazy"].(bool); ok {
			sys.lazy = l
		}
		last := -1
		if v, ok := rp.Extra["op"].(float64); ok {
			last = int(v)
		}
		sys.Replay(intsFromExtra(rp.Extra["hist"]), last)
		return sys.lastBad != "", sys.lastBad
	}
}

type readerOp struct {
	name string
	fn   string // ReadValue | ReadObject | ReadArray
	doc  []byte
	miss string // hit | miss1 | missall
}

type readerRes struct {
	v   interface{}
	p   int
	err error
	et  string // text of err when it was returned (a returned error is a returned value too)
}

// errText is err.Error() (a panicking Error method counts as text "<panic>").
func errText(err error) (s string) {
	if err == nil {
		return ""
	}
	defer func() {
		if recover() != nil {
			s = "<panic>"
		}
	}()
	return err.Error()
}

// inputArena is the one input buffer every call of a history reads from: a caller that refills
// the same buffer with the next document. State that keeps slices of an earlier input (instead
// of copies) then sees the next document's bytes.
var inputArena = make([]byte, 1<<20)

func (o readerOp) apply(vr *rjson.ValueReader) (res readerRes) {
	doc := o.doc
	if len(doc) <= len(inputArena) {
		copy(inputArena, doc)
		doc = inputArena[:len(o.doc):len(o.doc)]
	}
	n := 0
	switch o.miss {
	case "hit":
		vsync.Chooser = nil
	case "miss1":
		vsync.Chooser = func(int) int {
			n++
			if n == 1 {
				return 1
			}
			return 0
		}
	case "missall":
		vsync.Chooser = func(int) int { return 1 }
	}
	defer func() { vsync.Chooser = nil }()
	switch o.fn {
	case "ReadValue":
		res.v, res.p, res.err = vr.ReadValue(doc)
	case "ReadObject":
		m, p, err := vr.ReadObject(doc)
		if m != nil {
			res.v = m
		}
		res.p, res.err = p, err
	case "ReadArray":
		a, p, err := vr.ReadArray(doc)
		if a != nil {
			res.v = a
		}
		res.p, res.err = p, err
	}
	res.et = errText(res.err)
	return res
}

func sameRes(a, b readerRes) bool {
	if (a.err == nil) != (b.err == nil) {
		return false
	}
	if a.err != nil {
		return true
	}
	return a.p == b.p && ref.SameTree(a.v, b.v)
}

func resStr(a readerRes) string {
	return fmt.Sprintf("%s p=%d %s", treeStr(a.v), a.p, errStr(a.err))
}

// scribble modifies a result in place the way a caller may: overwrite elements, write into the
// spare capacity of returned slices, add and overwrite map keys.
var scribbleCount int

func scribble(v interface{}) {
	// Containers stay reachable from their parents (only scalars are overwritten), so that a
	// container shared between two results remains observable from both; every map gets a key
	// no other map has.
	isContainer := func(c interface{}) bool {
		switch c.(type) {
		case []interface{}, map[string]interface{}:
			return true
		}
		return false
	}
	switch x := v.(type) {
	case []interface{}:
		for i := range x {
			if isContainer(x[i]) {
				scribble(x[i])
			} else {
				x[i] = "scribbled"
			}
		}
		full := x[:cap(x)]
		for i := len(x); i < len(full); i++ {
			full[i] = "scribbled"
		}
	case map[string]interface{}:
		for k, vv := range x {
			if isContainer(vv) {
				scribble(vv)
			} else {
				x[k] = "scribbled"
			}
		}
		scribbleCount++
		x[fmt.Sprintf("scribbled-key-%d", scribbleCount)] = []interface{}{"scribbled"}
	}
}

func readerDocs(thorough bool) map[string][]byte {
	var wide strings.Builder
	wide.WriteString("{")
	for i := 0; i < 50; i++ {
		if i > 0 {
			wide.WriteString(",")
		}
		fmt.Fprintf(&wide, `"k%d":%d`, i, i)
	}
	wide.WriteString("}")
	d := map[string][]byte{
		"num":      []byte(`1.5`),
		"str":      []byte(`"a` + "\\" + `nb"`),
		"null":     []byte(`null`),
		"emptyarr": []byte(`[]`),
		"emptyobj": []byte(`{}`),
		"arrs":     []byte(`[[1,2],[3]]`),
		"objs":     []byte(`{"a":{"b":1},"` + U("0061") + `":2}`),
		"strs":     []byte(`["` + "\\" + `n","x"]`),
		// keys that are each other's (un)escaped forms: raw a\\n unescapes to a\n, whose raw form unescapes to a<LF>
		"key-esc2": []byte(`{"a` + "\\" + "\\" + `n":1,"` + "\\" + "\\" + U("0041") + `":1}`),
		"key-esc1": []byte(`{"a` + "\\" + `n":2,"` + U("0041") + `":2}`),
		"key-raw":  []byte(`{"an":3,"A":3}`),
		// same layout, different text at the same offsets (refilled input buffer)
		// failures after at least one complete member (half-built containers must not leak)
		"objpartial":    []byte(`{"id":7,"name":`),
		"arrobjpartial": []byte(`[{"id":7,"x":}]`),
		"arrpartial":    []byte(`[[7,8,`),
		"objsmall":      []byte(`{"name":"x"}`),
		"arrobjsmall":   []byte(`[{"name":"x"}]`),
		// member counts exactly at powers of two (thresholds in container handling)
		"arr256":      []byte("[" + strings.TrimSuffix(strings.Repeat("1,", 256), ",") + "]"),
		"arr1024":     []byte("[" + strings.TrimSuffix(strings.Repeat("1,", 1024), ",") + "]"),
		"arr4096":     []byte("[" + strings.TrimSuffix(strings.Repeat("1,", 4096), ",") + "]"),
		"obj256":      []byte(c15Obj(256)),
		"obj1024":     []byte(c15Obj(1024)),
		"nestedempty": []byte(`[{},{"a":{}},[{}]]`),
		"layout-1":    []byte(`{"id":1,"name":"x","seq":"0001"}`),
		"layout-2":    []byte(`{"no":2,"kind":"y","seq":"0002"}`),
		"layout-3":    []byte(`["0001",{"ab":1,"xy":"one"}]`),
		"layout-4":    []byte(`["0002",{"cd":2,"zw":"two"}]`),
		// numbers on the multiprecision fallback (after a range error on the same reader)
		"slowfloats":  []byte(`[9007199254740993.000000000000000000001,4503599627370497.5,1.00000000000000011102230246251565404236316680908203125]`),
		"underflow":   []byte(`[1e-999,4.9406564584124654e-324]`),
		"wide":        []byte(wide.String()),
		"mixed":       []byte(`[{"a":[1,{"b":"x"}]},[{}],"s"]`),
		"eof":         []byte(`[1,`),
		"objerr":      []byte(`{"a":}`),
		"nestederr":   []byte(`{"a":[{"b":[1,2,x]}]}`),
		"overflow":    []byte(`[1,1e999]`),
		"depth10001":  []byte(strings.Repeat("[", 10001) + strings.Repeat("]", 10001)),
		"depth30":     []byte(strings.Repeat(`[{"a":`, 15) + `"deep"` + strings.Repeat("}]", 15)),
		"depth10000":  []byte(strings.Repeat("[", 10000) + strings.Repeat("]", 10000)),
		"odepth10000": []byte(strings.Repeat(`{"a":`, 10000) + "1" + strings.Repeat("}", 10000)),
	}
	// nested escaped member names (inner longer than outer) and escaped names whose string values
	// sit round the sizes of scratch blocks
	d["escapedkeys"] = []byte(`{"` + "\\" + `ta":{"` + "\\" + `tb":{"` + "\\" + `tc":1}}}`)
	d["escapedkeys2"] = []byte(`{"k` + "\\" + `t1":{"inner` + "\\" + `tlonger_member_name":1}}`)
	// reads that fail INSIDE a string or member name, and documents whose strings begin with the
	// same bytes (state refreshed on the failing path)
	// documents that start with a stray token of each kind, and one-byte garbage
	for n, t := range map[string]string{"stray-arrend": "]", "stray-objend": "}", "stray-comma": ",", "stray-colon": ":", "stray-x": "x", "stray-minus": "-", "empty-input": " "} {
		d[n] = []byte(t)
	}
	// numbers that compare equal but are different values / spellings (signed zeros, 1 vs 1.0)
	d["zero"] = []byte(`0`)
	d["negzero"] = []byte(`-0`)
	d["zeros"] = []byte(`[0,-0,0.0,-0.0e1]`)
	d["negzeros"] = []byte(`[-0,0]`)
	d["ones"] = []byte(`[1,1.0,1e0,-1]`)
	d["str-a"] = []byte(`["a"]`)
	d["str-a-nul"] = []byte(`["a` + "\\" + `u0000"]`)
	d["str-empty"] = []byte(`[""]`)
	d["str-nul"] = []byte(`["` + "\\" + `u0000"]`)
	d["strtrunc"] = []byte(`["abc`)
	d["strfull"] = []byte(`["abcdef",1]`)
	d["topstrtrunc"] = []byte(`"abc`)
	d["topstrfull"] = []byte(`"abcdef"`)
	d["keytrunc"] = []byte(`{"ab`)
	d["keyfull"] = []byte(`{"abcd":1,"ab":2}`)
	d["esctrunc"] = []byte(`["a` + "\\" + `n` + "\\")
	d["escfull"] = []byte(`["a` + "\\" + `n` + "\\" + `tb"]`)
	d["strs2"] = []byte(`["` + "\\" + `t","y"]`)
	for _, L := range []int{64, 300, 512, 2048} {
		d[fmt.Sprintf("esckey-str%d", L)] = []byte(`{"k` + "\\" + `te":"` + strings.Repeat("x", L) + `","k2` + "\\" + `n":"` + strings.Repeat("y", L) + `"}`)
	}
	if thorough {
		d["odepth10001"] = []byte(strings.Repeat(`{"a":`, 10001) + "1" + strings.Repeat("}", 10001))
		d["siblings"] = []byte(`[[[],[[],[]]],[[],[[[]]]]]`)
	}
	return d
}

type readerSys struct {
	r       *eng.Run
	ops     []readerOp
	expect  []readerRes
	degrade bool
	quiet   bool
	lastBad string
	poolHit int
	// lazy: results are left untouched until the last call of the history has returned; only then
	// is the last result scribbled over (eager mode scribbles over every result at once)
	lazy bool
}

func newReaderSys(r *eng.Run, thorough bool) *readerSys {
	s := &readerSys{r: r}
	docs := readerDocs(thorough)
	var names []string
	for n := range docs {
		names = append(names, n)
	}
	sortStrings(names)
	for _, dn := range names {
		for _, fn := range []string{"ReadValue", "ReadObject", "ReadArray"} {
			for _, miss := range []string{"hit", "miss1", "missall"} {
				if miss != "hit" && dn != "mixed" && dn != "objs" && dn != "arrs" && !(thorough && (dn == "depth30" || dn == "siblings" || dn == "escapedkeys")) {
					continue // pool answers only matter for nested documents; keep the alphabet small
				}
				s.ops = append(s.ops, readerOp{name: fn + "/" + dn + "/" + miss, fn: fn, doc: docs[dn], miss: miss})
			}
		}
	}
	for _, op := range s.ops {
		s.expect = append(s.expect, op.apply(&rjson.ValueReader{}))
	}
	return s
}

func (s *readerSys) NumOps() int { return len(s.ops) }

func (s *readerSys) names(hist []int) []string {
	var out []string
	for _, h := range hist {
		out = append(out, s.ops[h].name)
	}
	return out
}

func (s *readerSys) Replay(hist []int, last int) string {
	vr := &rjson.ValueReader{}
	var results, frozen []readerRes
	report := func(sig, exp, got string, i int) {
		s.lastBad = fmt.Sprintf("%s: expected %s got %s", sig, exp, got)
		if !s.quiet && s.r != nil {
			s.r.Violation(eng.Replay{Engine: "hist", Entry: s.ops[i].name, Sig: sig, History: append(s.names(hist), s.ops[i].name), Expected: exp, Got: got,
				Extra: map[string]interface{}{"hist": hist, "op": i, "lazy": s.lazy}})
		}
	}
	step := func(i int, check bool) {
		var res readerRes
		pan := guard(func() { res = s.ops[i].apply(vr) })
		if pan != "" {
			report("panic/"+s.ops[i].name+"/after/"+strings.Join(s.names(hist), ","), "returns normally", pan, i)
			return
		}
		if check {
			if !sameRes(res, s.expect[i]) {
				report("reused-reader-differs/"+s.ops[i].name+"/after/"+strings.Join(s.names(hist), ","), resStr(s.expect[i])+" (brand-new reader)", resStr(res), i)
			}
			for k := range results {
				if !sameRes(results[k], frozen[k]) {
					report(fmt.Sprintf("earlier-result-changed/%s/result#%d/after/%s", s.ops[i].name, k, strings.Join(s.names(hist), ",")), resStr(frozen[k]), resStr(results[k]), i)
				} else if now := errText(results[k].err); now != frozen[k].et {
					report(fmt.Sprintf("earlier-error-changed/%s/result#%d/after/%s", s.ops[i].name, k, strings.Join(s.names(hist), ",")), fmt.Sprintf("error text %q (as returned)", frozen[k].et), fmt.Sprintf("%q", now), i)
				}
			}
		}
		fr := readerRes{cloneTree(res.v), res.p, res.err, res.et}
		if s.lazy && !check {
			results = append(results, res)
			frozen = append(frozen, fr)
			return
		}
		// the caller modifies what it got back
		scribble(res.v)
		if check {
			for k := range results {
				if !sameRes(results[k], frozen[k]) {
					report(fmt.Sprintf("earlier-result-changed-by-scribbling/%s/result#%d/after/%s", s.ops[i].name, k, strings.Join(s.names(hist), ",")), resStr(frozen[k]), resStr(results[k]), i)
				}
			}
		}
		// keep the scribbled value as "what the caller now holds" and its own frozen copy
		results = append(results, res)
		frozen = append(frozen, readerRes{cloneTree(res.v), res.p, res.err, res.et})
		_ = fr
	}
	for _, h := range hist {
		step(h, false)
	}
	if last >= 0 {
		step(last, true)
	}
	s.poolHit = vsync.Hits
	if !s.degrade {
		if k, ok := readerKey(vr); ok {
			return k
		}
		s.degrade = true
	}
	return fmt.Sprint(hist, last)
}

func c15(r *eng.Run) {
	sys := newReaderSys(r, r.Thorough())
	st := eng.HistBFS(r, sys, r.Pick(150, 2500), r.Pick(3, 4))
	if os.Getenv("VERIF_DEBUG") != "" {
		for i := range sys.ops {
			fmt.Println("KEY", sys.ops[i].name, sys.Replay([]int{i}, -1))
		}
	}
	// all ordered pairs and triples of calls over the cheap documents WITHOUT state dedup: a
	// canonical-state abstraction can hide state it does not know about (e.g. a cache added by
	// a refactoring); short histories are therefore also enumerated outright
	var cheap []int
	for i, op := range sys.ops {
		if (len(op.doc) < 200 || strings.Contains(op.name, "/esckey-str") || strings.HasPrefix(op.name, "ReadValue/arr1024") || strings.HasPrefix(op.name, "ReadArray/arr1024") || strings.HasPrefix(op.name, "ReadArray/arr256")) && op.miss == "hit" {
			cheap = append(cheap, i)
		}
	}
	nPairs := 0
	for _, a := range cheap {
		for _, b := range cheap {
			sys.Replay([]int{a}, b)
			nPairs++
		}
	}
	var rv []int
	for _, i := range cheap {
		if sys.ops[i].fn == "ReadValue" {
			rv = append(rv, i)
		}
	}
	for _, a := range rv {
		for _, b := range rv {
			for _, c := range rv {
				sys.Replay([]int{a, b}, c)
				nPairs++
			}
		}
		if r.TooMany() {
			break
		}
	}
	// pumped histories: one cheap op repeated many times (leaked counters only show after many
	// calls), then every cheap op
	pumped := 0
	for _, a := range cheap {
		for _, K := range []int{40, r.Pick(0, 3000)} {
			if K == 0 {
				continue
			}
			hist := make([]int, K)
			for i := range hist {
				hist[i] = a
			}
			for _, b := range rv {
				sys.Replay(hist, b)
				pumped++
			}
		}
		if r.TooMany() {
			break
		}
	}
	r.Set("pumped_histories", pumped)
	st.Transitions += pumped
	// all triples over a core set: every entry point x tiny documents of each outcome kind
	// (array / object success, array / object failure after a stored member, null)
	var core []int
	for i, op := range sys.ops {
		if op.miss != "hit" {
			continue
		}
		for _, dn := range []string{"arrs", "objs", "eof", "objpartial", "arrpartial", "null", "objsmall", "strs", "strs2", "nestedempty", "strtrunc", "strfull"} {
			if strings.HasSuffix(op.name, "/"+dn+"/hit") {
				core = append(core, i)
			}
		}
	}
	for _, lazy := range []bool{true, false} {
		sys.lazy = lazy
		for _, a := range core {
			for _, b := range core {
				for _, c := range core {
					sys.Replay([]int{a, b}, c)
					nPairs++
				}
			}
			if r.TooMany() {
				break
			}
		}
	}
	// lazy pairs over all cheap documents
	sys.lazy = true
	for _, a := range cheap {
		for _, b := range cheap {
			sys.Replay([]int{a}, b)
			nPairs++
		}
	}
	sys.lazy = false
	r.Set("core_triple_ops", len(core))
	r.Set("histories_without_dedup", nPairs)
	st.Transitions += nPairs
	r.Set("states", st.States)
	r.Set("transitions", st.Transitions)
	r.Set("traces_validated_against_impl", st.Transitions)
	r.Set("evaluations", st.Transitions)
	r.Set("distinct_nontrivial", st.States)
	r.Set("op_alphabet", len(sys.ops))
	r.Set("max_history_depth", st.MaxDepth)
	r.Set("closure_reached", st.Closed)
	r.Set("pool_hits_observed", sys.poolHit)
	r.Set("canonical_key_by_reflection", !sys.degrade)
	if !st.Closed {
		r.Inexhaustive(fmt.Sprintf("canonical ValueReader state space not closed within %d states / depth %d; every history up to the completed depth over the alphabet is covered (one representative per canonical state)", st.States, st.MaxDepth))
	}
	r.Sample(map[string]interface{}{"kind": "history", "ops": []string{"ReadValue/wide/hit", "ReadArray/eof/hit", "ReadValue/mixed/miss1"}, "note": "after each call the caller scribbles over the result; the last call is compared with a brand-new reader and all earlier results with their frozen copies"})
	r.Set("rule", "E3: BFS over call histories on one ValueReader (sync.Pool replaced by a deterministic shim whose Get answers are part of the op: always hit / first Get misses / always miss); alphabet = {ReadValue, ReadObject, ReadArray} x documents (scalars, empty and nested containers, escaped duplicate keys, escapes, a 50-key object, EOF / syntax / number-overflow errors, depth 30, depth 10001); dedup key = canonical reader state by reflection (depth, size hints, scratch len/cap, container fields, buffer, pool contents recursively). Every transition: result == brand-new reader's; all earlier results == frozen copies, also after the caller scribbles over every returned slice (within capacity) and map.")
}

func c15Obj(n int) string {
	var sb strings.Builder
	sb.WriteString("{")
	for i := 0; i < n; i++ {
		if i > 0 {
			sb.WriteString(",")
		}
		fmt.Fprintf(&sb, `"k%d":%d`, i, i)
	}
	sb.WriteString("}")
	return sb.String()
}
