package props

import (
	"fmt"
	"math"
	"math/big"
	"strconv"

	"github.com/willabides/rjson"

	"verifharness/eng"
	"verifharness/ref"
)

func init() {
	Registry["C05"] = c05
	Replayers["C05"] = func(rp *eng.Replay) (bool, string) {
		bad, _, exp, got := checkInts(rp.InputB64, nil)
		return bad != "", fmt.Sprintf("%s expected %s got %s", bad, exp, got)
	}
}

type intReader struct {
	name     string
	signed   bool
	min, max *big.Int
	read     func(w []byte) (*big.Int, int, error)
	decode   func(w []byte) (*big.Int, int, error)
}

func bi(s string) *big.Int { v, _ := new(big.Int).SetString(s, 10); return v }

var intReaders = func() []intReader {
	isz := strconv.IntSize
	imin, imax, umax := big.NewInt(math.MinInt64), big.NewInt(math.MaxInt64), new(big.Int).SetUint64(math.MaxUint64)
	if isz == 32 {
		imin, imax, umax = big.NewInt(math.MinInt32), big.NewInt(math.MaxInt32), big.NewInt(math.MaxUint32)
	}
	return []intReader{
		{"ReadInt64", true, big.NewInt(math.MinInt64), big.NewInt(math.MaxInt64),
			func(w []byte) (*big.Int, int, error) { v, p, e := rjson.ReadInt64(w); return big.NewInt(v), p, e },
			func(w []byte) (*big.Int, int, error) {
				var v int64 = 5
				p, e := rjson.DecodeInt64(w, &v)
				return big.NewInt(v), p, e
			}},
		{"ReadUint64", false, big.NewInt(0), new(big.Int).SetUint64(math.MaxUint64),
			func(w []byte) (*big.Int, int, error) {
				v, p, e := rjson.ReadUint64(w)
				return new(big.Int).SetUint64(v), p, e
			},
			func(w []byte) (*big.Int, int, error) {
				var v uint64 = 5
				p, e := rjson.DecodeUint64(w, &v)
				return new(big.Int).SetUint64(v), p, e
			}},
		{"ReadInt32", true, big.NewInt(math.MinInt32), big.NewInt(math.MaxInt32),
			func(w []byte) (*big.Int, int, error) {
				v, p, e := rjson.ReadInt32(w)
				return big.NewInt(int64(v)), p, e
			},
			func(w []byte) (*big.Int, int, error) {
				var v int32 = 5
				p, e := rjson.DecodeInt32(w, &v)
				return big.NewInt(int64(v)), p, e
			}},
		{"ReadUint32", false, big.NewInt(0), big.NewInt(math.MaxUint32),
			func(w []byte) (*big.Int, int, error) {
				v, p, e := rjson.ReadUint32(w)
				return big.NewInt(int64(v)), p, e
			},
			func(w []byte) (*big.Int, int, error) {
				var v uint32 = 5
				p, e := rjson.DecodeUint32(w, &v)
				return big.NewInt(int64(v)), p, e
			}},
		{"ReadInt", true, imin, imax,
			func(w []byte) (*big.Int, int, error) { v, p, e := rjson.ReadInt(w); return big.NewInt(int64(v)), p, e },
			func(w []byte) (*big.Int, int, error) {
				var v int = 5
				p, e := rjson.DecodeInt(w, &v)
				return big.NewInt(int64(v)), p, e
			}},
		{"ReadUint", false, big.NewInt(0), umax,
			func(w []byte) (*big.Int, int, error) {
				v, p, e := rjson.ReadUint(w)
				return new(big.Int).SetUint64(uint64(v)), p, e
			},
			func(w []byte) (*big.Int, int, error) {
				var v uint = 5
				p, e := rjson.DecodeUint(w, &v)
				return new(big.Int).SetUint64(uint64(v)), p, e
			}},
	}
}()

// checkInts compares all six integer readers (and their Decode forms on non-null input) with
// the math/big reference.
func checkInts(w []byte, _ *ref.PDA) (string, bool, string, string) {
	_, isNull := ref.Literal(w, "null")
	for _, ir := range intReaders {
		want, wp, ok := ref.IntSpec(w, ir.signed, ir.min, ir.max)
		got, p, err := ir.read(w)
		if (err == nil) != ok {
			return ir.name + "/success", false, fmt.Sprintf("ok=%v", ok), fmt.Sprintf("%v p=%d %s", got, p, errStr(err))
		}
		if ok && (got.Cmp(want) != 0 || p != wp) {
			return ir.name + "/value", false, fmt.Sprintf("%v p=%d", want, wp), fmt.Sprintf("%v p=%d", got, p)
		}
		if !isNull {
			dgot, dp, derr := ir.decode(w)
			if (derr == nil) != ok {
				return ir.name + "/decode/success", false, fmt.Sprintf("ok=%v", ok), fmt.Sprintf("%v p=%d %s", dgot, dp, errStr(derr))
			}
			if ok && (dgot.Cmp(want) != 0 || dp != wp) {
				return ir.name + "/decode/value", false, fmt.Sprintf("%v p=%d", want, wp), fmt.Sprintf("%v p=%d", dgot, dp)
			}
		}
	}
	return "", false, "", ""
}

// checkIntsStd cross-checks the reference against strconv on a plain digit string token.
func intOracleSelfCheck(tok string) string {
	for _, c := range []struct {
		signed bool
		bits   int
		min    *big.Int
		max    *big.Int
	}{{true, 64, big.NewInt(math.MinInt64), big.NewInt(math.MaxInt64)}, {false, 64, big.NewInt(0), new(big.Int).SetUint64(math.MaxUint64)},
		{true, 32, big.NewInt(math.MinInt32), big.NewInt(math.MaxInt32)}, {false, 32, big.NewInt(0), big.NewInt(math.MaxUint32)}} {
		v, p, ok := ref.IntSpec([]byte(tok), c.signed, c.min, c.max)
		var sok bool
		var sv string
		if c.signed {
			x, err := strconv.ParseInt(tok, 10, c.bits)
			sok, sv = err == nil, fmt.Sprint(x)
		} else {
			x, err := strconv.ParseUint(tok, 10, c.bits)
			sok, sv = err == nil, fmt.Sprint(x)
		}
		if ok != sok || (ok && (v.String() != sv || p != len(tok))) {
			return fmt.Sprintf("%s signed=%v bits=%d: ref=(%v,%v) strconv=(%v,%v)", tok, c.signed, c.bits, v, ok, sv, sok)
		}
	}
	return ""
}

func c05(r *eng.Run) {
	r.Level = "exploration"
	K := r.Pick(1, 2)
	sp := e1Spec{
		entry:  "Read{Int,Uint}{,32,64}",
		check:  checkInts,
		digSat: 23,
		alive: func(w []byte, a *ref.PDA) bool {
			if a.Depth() > 0 {
				return false
			}
			switch a.Phase {
			case ref.PTop:
				return true
			case ref.PNum:
				return true
			}
			return false
		},
	}
	res := runE1(r, sp, 0, K, 400000)
	e1Evidence(r, 0, K, res)
	c05Values(r)
	r.Set("rule", "E1 over the number-token automaton with exact digit counts 0..23 (sign, leading zero, fraction/exponent continuation) x all 256 next bytes for all six readers and their Decode forms; E5: complete windows round every type bound and the 18/19/20-digit switch-overs, all |v|<10^5, boundary prefixes x all two-digit endings; oracle math/big (self-checked against strconv). distinct_nontrivial = distinct expanded automaton states + distinct integer literals evaluated.")
	r.Sample(map[string]interface{}{"kind": "pfx-node", "input": "-1234567890123456789", "note": "followed by all 256 bytes"})
	r.Assume("values outside the enumerated windows are covered only through the per-state exploration (digits of shortest witnesses)")
}
