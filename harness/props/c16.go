package props

import (
	"bytes"
	"fmt"
	"sync/atomic"

	"github.com/willabides/rjson"

	"verifharness/eng"
	"verifharness/ref"
)

func init() {
	Registry["C16"] = c16
	Replayers["C16"] = func(rp *eng.Replay) (bool, string) {
		var bad, exp, got string
		pan := guard(func() { bad, _, exp, got = checkBuffers(rp.InputB64, nil) })
		if pan != "" {
			return true, "panic: " + pan
		}
		if bad == "" {
			bad, exp, got = checkOwnership(rp.InputB64)
		}
		return bad != "", fmt.Sprintf("%s expected %s got %s", bad, exp, got)
	}
}

// dstMenu builds the destination slices: (description, slice). Spare capacity is filled with 0xAA.
func dstMenu() []struct {
	name string
	dst  []byte
} {
	type d = struct {
		name string
		dst  []byte
	}
	mk := func(prefix string, spare int) []byte {
		b := make([]byte, len(prefix), len(prefix)+spare)
		copy(b, prefix)
		full := b[:cap(b)]
		for i := len(prefix); i < len(full); i++ {
			full[i] = 0xAA
		}
		return b
	}
	out := []d{{"nil", nil}, {"empty/cap0", []byte{}}, {"empty/cap1", mk("", 1)}, {"empty/cap64", mk("", 64)}, {"xy/full", mk("xy", 0)}}
	for k := 1; k <= 8; k++ {
		out = append(out, d{fmt.Sprintf("xy/spare%d", k), mk("xy", k)})
	}
	out = append(out, d{"long/spare3", mk("0123456789abcdef", 3)})
	// content that is not valid UTF-8 on its own (ends in the first bytes of a multi-byte sequence)
	out = append(out, d{"partial-rune/spare0", mk("ab\xe2\x82", 0)}, d{"partial-rune/spare6", mk("\xf0\x9f", 6)})
	return out
}

// appendLaw checks f(dst) == dst ++ f(empty) for every destination of the menu, and that the
// destination's own bytes [0,len) are not altered.
func appendLaw(name string, f func(dst []byte) ([]byte, bool)) (bad, exp, got string) {
	base, ok := f(nil)
	if !ok {
		return "", "", ""
	}
	for _, d := range dstMenu() {
		prefix := append([]byte(nil), d.dst...)
		res, ok2 := f(d.dst)
		if !ok2 {
			return name + "/append/" + d.name + "/fails", "success as with an empty destination", "error"
		}
		want := append(append([]byte(nil), prefix...), base...)
		if !bytes.Equal(res, want) {
			return name + "/append/" + d.name, fmt.Sprintf("%q", want), fmt.Sprintf("%q", res)
		}
		if !bytes.Equal(d.dst[:len(prefix)], prefix) {
			return name + "/append/" + d.name + "/prefix-overwritten", fmt.Sprintf("%q", prefix), fmt.Sprintf("%q", d.dst[:len(prefix)])
		}
	}
	return "", "", ""
}

// checkBuffers is C16 (ii)+(iii) on one input.
func checkBuffers(w []byte, _ *ref.PDA) (string, bool, string, string) {
	orig := append([]byte(nil), w...)
	if b, e, g := appendLaw("ReadStringBytes", func(dst []byte) ([]byte, bool) {
		v, _, err := rjson.ReadStringBytes(w, dst)
		return v, err == nil
	}); b != "" {
		return b, false, e, g
	}
	i := bytes.IndexByte(w, '"')
	if i >= 0 {
		content := w[i+1:]
		if j := bytes.LastIndexByte(content, '"'); j >= 0 {
			content = content[:j]
		}
		if b, e, g := appendLaw("UnescapeStringContent", func(dst []byte) ([]byte, bool) {
			v, _, err := rjson.UnescapeStringContent(content, dst)
			return v, err == nil
		}); b != "" {
			return b, false, e, g
		}
	}
	if b, e, g := appendLaw("StdLibCompatibleStringBytes", func(dst []byte) ([]byte, bool) {
		return rjson.StdLibCompatibleStringBytes(w, dst), true
	}); b != "" {
		return b, false, e, g
	}
	// scratch independence
	base, bp, berr := rjson.ReadString(w, nil)
	scratches := [][]byte{nil, {}, []byte("dirty scratch"), append(make([]byte, 0, 256), "dirty with a large capacity................................"...)}
	for si, sc := range scratches {
		var ptr *[]byte
		if si > 0 {
			s2 := sc
			ptr = &s2
		}
		v, p, err := rjson.ReadString(w, ptr)
		if (err == nil) != (berr == nil) || (err == nil && (v != base || p != bp)) {
			return fmt.Sprintf("ReadString/scratch#%d", si), false, fmt.Sprintf("%q p=%d %s", base, bp, errStr(berr)), fmt.Sprintf("%q p=%d %s", v, p, errStr(err))
		}
		tgt := "t"
		dp, derr := rjson.DecodeString(w, &tgt, ptr)
		if berr == nil && (derr != nil || tgt != base || dp != bp) {
			return fmt.Sprintf("DecodeString/scratch#%d", si), false, fmt.Sprintf("%q p=%d", base, bp), fmt.Sprintf("%q p=%d %s", tgt, dp, errStr(derr))
		}
		// the returned string must not alias the scratch: scribble over it
		if ptr != nil && err == nil {
			full := (*ptr)[:cap(*ptr)]
			for k := range full {
				full[k] = 0xFF
			}
			if v != base || tgt != base {
				return fmt.Sprintf("ReadString/aliases-scratch#%d", si), false, fmt.Sprintf("%q", base), fmt.Sprintf("%q / %q after the scratch was overwritten", v, tgt)
			}
		}
	}
	if !bytes.Equal(w, orig) {
		return "input-modified", false, fmt.Sprintf("%q", orig), fmt.Sprintf("%q", w)
	}
	return "", false, "", ""
}

func cloneTree(v interface{}) interface{} {
	switch x := v.(type) {
	case string:
		return string(append([]byte(nil), x...))
	case []interface{}:
		o := make([]interface{}, len(x))
		for i := range x {
			o[i] = cloneTree(x[i])
		}
		return o
	case map[string]interface{}:
		o := make(map[string]interface{}, len(x))
		for k, vv := range x {
			o[string(append([]byte(nil), k...))] = cloneTree(vv)
		}
		return o
	}
	return v
}

// checkOwnership is C16 (iv): results must survive overwriting of the input and of every buffer
// that was handed to the library.
func checkOwnership(text []byte) (bad, exp, got string) {
	w := eng.Exact(text)
	orig := eng.Exact(text)
	var vr rjson.ValueReader
	v1, _, err1 := rjson.ReadValue(w)
	v2, _, err2 := vr.ReadValue(w)
	scratch := make([]byte, 0, 64)
	s, _, err3 := rjson.ReadString(w, &scratch)
	dst := make([]byte, 0, 8)
	sb, _, err4 := rjson.ReadStringBytes(w, dst)
	sbCopy := append([]byte(nil), sb...)
	// the handler idiom with a reused key scratch: x, _, err = UnescapeStringContent(name, x[:0])
	var keyScratch []byte
	rjson.HandleObjectValues(w, rjson.ObjectValueHandlerFunc(func(k, d []byte) (int, error) {
		keyScratch, _, _ = rjson.UnescapeStringContent(k, keyScratch[:0])
		return 0, nil
	}), nil)
	if !bytes.Equal(w, orig) {
		return "input-modified", fmt.Sprintf("%q", orig), fmt.Sprintf("%q", w)
	}
	f1, f2, fs := cloneTree(v1), cloneTree(v2), string(append([]byte(nil), s...))
	// overwrite the input and the scratch
	for i := range w {
		w[i] = 0xFF
	}
	full := scratch[:cap(scratch)]
	for i := range full {
		full[i] = 0xFF
	}
	// further use of the same reader on other documents must not disturb earlier results either
	// (successful, failing at each entry point, then successful again)
	vr.ReadValue([]byte(`{"zzzz":["yyyy","` + "\\" + `n"],"` + "\\" + `t":{"q":"wwww"}}`))
	vr.ReadValue([]byte(`{"zz":["yy",`))
	vr.ReadObject([]byte(`{"zz":"yy","q":}`))
	vr.ReadArray([]byte(`["zz","yy",x]`))
	vr.ReadValue([]byte(`{"zzzz":["yyyy","` + "\\" + `n"],"` + "\\" + `t":{"q":"wwww"}}`))
	vr.ReadValue([]byte(`["overwrite","overwrite"]`))
	if err1 == nil && !ref.SameTree(v1, f1) {
		return "ReadValue/result-aliases-input", treeStr(f1), treeStr(v1)
	}
	if err2 == nil && !ref.SameTree(v2, f2) {
		return "ValueReader.ReadValue/result-aliases-input-or-reader", treeStr(f2), treeStr(v2)
	}
	if err3 == nil && s != fs {
		return "ReadString/result-aliases", fmt.Sprintf("%q", fs), fmt.Sprintf("%q", s)
	}
	// ReadStringBytes result lives in the caller's destination (or a grown copy): overwriting the
	// INPUT must not change it
	if err4 == nil && !bytes.Equal(sb, sbCopy) {
		return "ReadStringBytes/result-aliases-input", fmt.Sprintf("%q", sbCopy), fmt.Sprintf("%q", sb)
	}
	return "", "", ""
}

func c16(r *eng.Run) {
	K := 1
	// string nodes (the C06 exploration) x destination / scratch menus
	sp := e1Spec{
		entry:       "ReadStringBytes/UnescapeStringContent/StdLibCompatibleStringBytes/ReadString/DecodeString",
		handWritten: true,
		probe:       func(w []byte) { rjson.ReadStringBytes(w, nil) },
		check:       checkBuffers,
		alive: func(w []byte, a *ref.PDA) bool {
			if a.Depth() > 0 {
				return false
			}
			switch a.Phase {
			case ref.PTop, ref.PStr:
				return true
			case ref.PDone:
				return a.Trail < 2 && a.WS < 2
			}
			return false
		},
		refKey: func(w []byte, a *ref.PDA) string { return a.Key() + ref.StrRefine(w) },
		maxLen: 40,
		noPump: !r.Thorough(),
	}
	res := runE1(r, sp, 0, K, 300000)
	// the shared hard-string pool (escaped quote first, plain runs, every escape kind): token and
	// bare content, through the same destination / scratch menus
	{
		var pool [][]byte
		for _, x := range hardStrings() {
			pool = append(pool, []byte(x), []byte(x[1:len(x)-1]))
		}
		runFamily(r, "hard-strings", sp.entry, pool, checkBuffers)
	}
	// input immutability of every exported function on every node of a generic exploration
	apiRuns := 0
	sp2 := e1Spec{
		entry: "all exported functions (input immutability)",
		probe: func(w []byte) { rjson.SkipValue(w, nil) },
		check: func(w []byte, a *ref.PDA) (string, bool, string, string) {
			apiRuns++
			wc := eng.Exact(w)
			apiSweep(wc)
			if !bytes.Equal(wc, w) {
				return "input-modified", false, fmt.Sprintf("%q", w), fmt.Sprintf("%q", wc)
			}
			if b, e, g := checkOwnership(w); b != "" {
				return b, false, e, g
			}
			return "", false, "", ""
		},
		handWritten: true,
		refKey:      func(w []byte, a *ref.PDA) string { return a.Key() + ref.StrRefine(w) },
		noPump:      true,
		noWindow:    true, // the window runs of the per-property searches already cover writes beyond len
	}
	res2 := runE1(r, sp2, 1, K, r.Pick(20000, 200000))
	e1Evidence(r, 1, K, res, res2)
	// E2 texts: ownership of returned trees / strings
	var evals int64
	ds := eng.GenDocs(r.Pick(3, 4), leafMenu, []string{`"a"`, `"` + U("0061") + `"`, `"` + "\\" + `tk"`, "\"\xff\"", `"abcdefgh"`, `"xy` + "\\" + `nz"`})
	all := ds.All()
	eng.Parallel(len(all), func(i int) {
		atomic.AddInt64(&evals, 1)
		var bad, exp, got string
		pan := guard(func() { bad, exp, got = checkOwnership([]byte(all[i])) })
		if pan != "" {
			bad, exp, got = "panic", "returns normally", pan
		}
		if bad != "" {
			r.Violation(eng.Replay{Engine: "docs", Entry: "ReadValue/ReadString ownership", Sig: bad + "/" + shortSig([]byte(all[i])), InputB64: []byte(all[i]), Expected: exp, Got: got})
		}
	})
	r.Add("evaluations", int(evals))
	r.Set("e2_ownership_texts", int(evals))
	r.Set("destination_menu", len(dstMenu()))
	// the hard-number pool (digit runs of every length 1..40, every conversion path) and the hard
	// strings, bare and inside containers: failing paths must leave the input alone too
	{
		var pool []string
		for _, x := range hardNumbers() {
			pool = append(pool, x, "["+x+",1]", `{"a":`+x+`}`)
		}
		for _, x := range hardStrings() {
			pool = append(pool, x, "["+x+"]")
		}
		for _, t := range pool {
			w := eng.Exact([]byte(t))
			wc := eng.Exact([]byte(t))
			eng.Beat(w)
			apiRuns++
			if pan := guard(func() { apiSweep(wc) }); pan != "" {
				r.Violation(eng.Replay{Engine: "api", Entry: "all exported functions (input immutability)", Sig: "panic/hard-pool/" + shortSig(w), InputB64: w, Expected: "returns normally", Got: "panic: " + pan})
				continue
			}
			if !bytes.Equal(wc, w) {
				r.Violation(eng.Replay{Engine: "api", Entry: "all exported functions (input immutability)", Sig: "input-modified/hard-pool/" + shortSig(w), InputB64: w, Expected: fmt.Sprintf("%q", w), Got: fmt.Sprintf("%q", wc)})
			}
		}
	}
	r.Set("api_immutability_nodes", apiRuns)
	r.Set("rule", e1Rule+" C16: on every string node the append law result == destination ++ result-with-empty-destination is checked for ReadStringBytes, UnescapeStringContent and StdLibCompatibleStringBytes over a destination menu (nil, empty with cap 0/1/64, full, 1..8 bytes spare filled with 0xAA, long prefix), scratch independence of ReadString/DecodeString over {nil, empty, dirty, dirty large}; every exported function runs on every node of a generic exploration with the input compared before/after; after each call the input and the buffers are overwritten with 0xFF and previously returned strings/trees compared with frozen deep copies (also after the reader is reused).")
	r.Sample(map[string]interface{}{"kind": "string-node x destination", "input": `"a` + "\\" + `n`, "destination": "xy with 3 spare bytes of 0xAA"})
}
