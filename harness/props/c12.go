package props

import (
	"fmt"
	"math"
	"math/big"

	"github.com/willabides/rjson"

	"verifharness/eng"
	"verifharness/ref"
)

func init() {
	Registry["C12"] = c12
	Replayers["C12"] = func(rp *eng.Replay) (bool, string) {
		bad, _, exp, got := checkDecode(rp.InputB64, nil)
		return bad != "", fmt.Sprintf("%s expected %s got %s", bad, exp, got)
	}
}

// decodeCase runs one Decode function with the target preset to one of two initial values and
// the corresponding Read function, and applies the property's three-way rule.
type decodeCase struct {
	name string
	// run returns: reader result (value as string, p, err), decode result (p, err), target after as string, initial target as string
	run func(w []byte, sentinel bool) (rv string, rp int, rerr error, dp int, derr error, after, initial string)
}

func fstr(f float64) string { return fmt.Sprintf("%x", math.Float64bits(f)) }

var decodeCases = []decodeCase{
	{"DecodeBool", func(w []byte, s bool) (string, int, error, int, error, string, string) {
		t := s
		v, p, e := rjson.ReadBool(w)
		dp, de := rjson.DecodeBool(w, &t)
		return fmt.Sprint(v), p, e, dp, de, fmt.Sprint(t), fmt.Sprint(s)
	}},
	{"DecodeFloat64", func(w []byte, s bool) (string, int, error, int, error, string, string) {
		t := 0.0
		if s {
			t = -7.25
		}
		i := t
		v, p, e := rjson.ReadFloat64(w)
		dp, de := rjson.DecodeFloat64(w, &t)
		return fstr(v), p, e, dp, de, fstr(t), fstr(i)
	}},
	{"DecodeInt64", func(w []byte, s bool) (string, int, error, int, error, string, string) {
		var t int64
		if s {
			t = -77
		}
		i := t
		v, p, e := rjson.ReadInt64(w)
		dp, de := rjson.DecodeInt64(w, &t)
		return fmt.Sprint(v), p, e, dp, de, fmt.Sprint(t), fmt.Sprint(i)
	}},
	{"DecodeInt32", func(w []byte, s bool) (string, int, error, int, error, string, string) {
		var t int32
		if s {
			t = -77
		}
		i := t
		v, p, e := rjson.ReadInt32(w)
		dp, de := rjson.DecodeInt32(w, &t)
		return fmt.Sprint(v), p, e, dp, de, fmt.Sprint(t), fmt.Sprint(i)
	}},
	{"DecodeInt", func(w []byte, s bool) (string, int, error, int, error, string, string) {
		var t int
		if s {
			t = -77
		}
		i := t
		v, p, e := rjson.ReadInt(w)
		dp, de := rjson.DecodeInt(w, &t)
		return fmt.Sprint(v), p, e, dp, de, fmt.Sprint(t), fmt.Sprint(i)
	}},
	{"DecodeUint64", func(w []byte, s bool) (string, int, error, int, error, string, string) {
		var t uint64
		if s {
			t = 77
		}
		i := t
		v, p, e := rjson.ReadUint64(w)
		dp, de := rjson.DecodeUint64(w, &t)
		return fmt.Sprint(v), p, e, dp, de, fmt.Sprint(t), fmt.Sprint(i)
	}},
	{"DecodeUint32", func(w []byte, s bool) (string, int, error, int, error, string, string) {
		var t uint32
		if s {
			t = 77
		}
		i := t
		v, p, e := rjson.ReadUint32(w)
		dp, de := rjson.DecodeUint32(w, &t)
		return fmt.Sprint(v), p, e, dp, de, fmt.Sprint(t), fmt.Sprint(i)
	}},
	{"DecodeUint", func(w []byte, s bool) (string, int, error, int, error, string, string) {
		var t uint
		if s {
			t = 77
		}
		i := t
		v, p, e := rjson.ReadUint(w)
		dp, de := rjson.DecodeUint(w, &t)
		return fmt.Sprint(v), p, e, dp, de, fmt.Sprint(t), fmt.Sprint(i)
	}},
	{"DecodeString", func(w []byte, s bool) (string, int, error, int, error, string, string) {
		t := ""
		if s {
			t = "sentinel"
		}
		i := t
		v, p, e := rjson.ReadString(w, nil)
		dp, de := rjson.DecodeString(w, &t, nil)
		return fmt.Sprintf("%q", v), p, e, dp, de, fmt.Sprintf("%q", t), fmt.Sprintf("%q", i)
	}},
	{"DecodeString/buf", func(w []byte, s bool) (string, int, error, int, error, string, string) {
		t := ""
		if s {
			t = "sentinel"
		}
		i := t
		buf := []byte("dirty scratch contents")
		v, p, e := rjson.ReadString(w, nil)
		dp, de := rjson.DecodeString(w, &t, &buf)
		return fmt.Sprintf("%q", v), p, e, dp, de, fmt.Sprintf("%q", t), fmt.Sprintf("%q", i)
	}},
}

// decodeStringPriors runs DecodeString with prior target values derived from the input itself
// (the property quantifies over every prior content of the target): the raw token text, its
// prefixes up to each quote / backslash, and the decoded value.
func decodeStringPriors(w []byte) (string, string, string) {
	rv, rp, rerr := rjson.ReadString(w, nil)
	np, isNull := ref.Literal(w, "null")
	i := 0
	for i < len(w) && ref.IsWS(w[i]) {
		i++
	}
	priors := []string{rv, rv + "x", string(w), string(w[i:])}
	if i < len(w) && w[i] == '"' {
		body := w[i+1:]
		priors = append(priors, string(body))
		for j, c := range body {
			if c == '"' || c == '\\' {
				priors = append(priors, string(body[:j]), string(body[:j+1]))
			}
		}
	}
	for _, prior := range priors {
		for _, withBuf := range []bool{false, true} {
			t := prior
			var buf *[]byte
			if withBuf {
				b := []byte(prior)
				buf = &b
			}
			dp, derr := rjson.DecodeString(w, &t, buf)
			tag := fmt.Sprintf("DecodeString/prior=%q/buf=%v", prior, withBuf)
			switch {
			case rerr == nil:
				if derr != nil || dp != rp || t != rv {
					return tag + "/reader-ok", fmt.Sprintf("p=%d nil target=%q", rp, rv), fmt.Sprintf("p=%d %s target=%q", dp, errStr(derr), t)
				}
			case isNull:
				if derr != nil || dp != np || t != prior {
					return tag + "/null", fmt.Sprintf("p=%d nil target unchanged", np), fmt.Sprintf("p=%d %s target=%q", dp, errStr(derr), t)
				}
			default:
				if derr == nil || t != prior {
					return tag + "/error", "error, target unchanged", fmt.Sprintf("p=%d %s target=%q", dp, errStr(derr), t)
				}
			}
		}
	}
	// two successive calls through one scratch buffer: what the first call stored must survive
	// the second call (successful or not)
	if rerr == nil {
		for _, second := range [][]byte{w, []byte(`"` + "\\" + `tzzzzzzzzzzzzzzzzzzzzzzzzzzzzzzzz"`), []byte(`"` + "\\" + `tq`), []byte(`"x"`)} {
			var t1, t2 string
			buf := make([]byte, 0, 64)
			rjson.DecodeString(w, &t1, &buf)
			keep := string(append([]byte(nil), t1...))
			rjson.DecodeString(second, &t2, &buf)
			if t1 != keep {
				return fmt.Sprintf("DecodeString/earlier-target-changed-by-later-call/second=%q", second), fmt.Sprintf("%q", keep), fmt.Sprintf("%q", t1)
			}
		}
	}
	return "", "", ""
}

func checkDecode(w []byte, _ *ref.PDA) (string, bool, string, string) {
	if b, e, g := decodeStringPriors(w); b != "" {
		return b, false, e, g
	}
	np, isNull := ref.Literal(w, "null")
	for _, dc := range decodeCases {
		for _, sentinel := range []bool{false, true} {
			rv, rp, rerr, dp, derr, after, initial := dc.run(w, sentinel)
			tag := fmt.Sprintf("%s/sentinel=%v", dc.name, sentinel)
			switch {
			case rerr == nil:
				if derr != nil || dp != rp || after != rv {
					return tag + "/reader-ok", false, fmt.Sprintf("p=%d nil target=%s", rp, rv), fmt.Sprintf("p=%d %s target=%s", dp, errStr(derr), after)
				}
			case isNull:
				if derr != nil || dp != np || after != initial {
					return tag + "/null", false, fmt.Sprintf("p=%d nil target unchanged (%s)", np, initial), fmt.Sprintf("p=%d %s target=%s", dp, errStr(derr), after)
				}
			default:
				if derr == nil || after != initial {
					return tag + "/error", false, fmt.Sprintf("error, target unchanged (%s)", initial), fmt.Sprintf("p=%d %s target=%s", dp, errStr(derr), after)
				}
			}
		}
	}
	return "", false, "", ""
}

func c12(r *eng.Run) {
	K := r.Pick(1, 2)
	sp := e1Spec{
		handWritten: true,
		entry:       "Decode*",
		probe:       func(w []byte) { rjson.ReadNull(w) },
		probes:      []func([]byte){func(w []byte) { rjson.ReadBool(w) }, func(w []byte) { rjson.ReadStringBytes(w, nil) }},
		check:       checkDecode,
		digSat:      r.Pick(4, 23),
		// scalars only: literals, numbers, strings at top level (the union of the node sets of
		// the readers and of the null machine)
		alive: func(w []byte, a *ref.PDA) bool {
			if a.Depth() > 0 {
				return false
			}
			if a.Phase == ref.PDone {
				return a.Trail < 2 && a.WS < 2
			}
			return a.Alive()
		},
		refKey: func(w []byte, a *ref.PDA) string { return a.Key() + ref.StrRefine(w) },
	}
	res := runE1(r, sp, 0, K, 400000)
	e1Evidence(r, 0, K, res)
	// boundary values of every integer type (the reader itself is C05's subject; here the
	// Decode form must agree with it on them, with both initial targets)
	nb := 0
	for _, c := range []string{"2147483647", "2147483648", "4294967295", "4294967296", "9223372036854775807", "9223372036854775808", "18446744073709551615", "18446744073709551616", "0", "1e0", "1.0", "1e400", "1e-400", "0.1"} {
		for d := int64(-2); d <= 2; d++ {
			lit := c
			if v, ok := new(big.Int).SetString(c, 10); ok {
				lit = new(big.Int).Add(v, big.NewInt(d)).String()
			} else if d != 0 {
				continue
			}
			for _, form := range []string{"%s", "-%s", " %s ", "%s,", "-%sx", "%s.0", "%se0"} {
				w := []byte(fmt.Sprintf(form, lit))
				nb++
				if bad, _, exp, got := checkDecode(w, nil); bad != "" {
					r.Violation(eng.Replay{Engine: "num", Entry: "Decode*", Sig: bad + "/" + shortSig(w), InputB64: w, Expected: exp, Got: got})
				}
			}
		}
	}
	// the shared hard-number and hard-string pools (Decode must agree with Read on them too)
	{
		var pool [][]byte
		for _, x := range hardNumbers() {
			pool = append(pool, []byte(x), []byte(" "+x+","))
		}
		for _, x := range hardStrings() {
			pool = append(pool, []byte(x), []byte(x[:len(x)-1]))
		}
		runFamily(r, "hard-numbers-and-strings", "Decode*", pool, checkDecode)
	}
	r.Add("evaluations", nb)
	r.Set("boundary_literals", nb)
	coverageReport(r, "readNull", "readBool", "appendRemainderOfString")
	r.Set("decode_cases_per_node", len(decodeCases)*2)
	r.Set("rule", e1Rule+" On every node all ten Decode functions run with the target preset to the zero value and to a sentinel; oracle: the corresponding Read function + the null rule + 'target unchanged'.")
	r.Sample(map[string]interface{}{"kind": "pfx-node", "input": " nul", "decode": "DecodeInt64 with target=-77", "note": "followed by all 256 bytes"})
}
