package props

import (
	"bytes"
	"fmt"
	"math"
	"os"
	"os/exec"
	"strings"
	"sync"
	"time"
	"unsafe"

	"github.com/willabides/rjson"
	"github.com/willabides/rjson/verifhook"
	"github.com/willabides/rjson/verifhook/vatomic"
	"github.com/willabides/rjson/verifhook/vsync"

	"verifharness/eng"
)

func init() {
	Registry["C18"] = c18
	Replayers["C18"] = func(rp *eng.Replay) (bool, string) {
		ts := concTemplates()
		idx := intsFromExtra(rp.Extra["templates"])
		if len(idx) == 0 {
			return false, "no templates recorded (race-pass findings are re-checked by running ./check C18)"
		}
		verifhook.Snapshot = true
		verifhook.Sched = func(int, int, unsafe.Pointer) {}
		for _, t := range ts {
			t.run()
		}
		verifhook.Sched = nil
		for i, t := range ts {
			verifhook.RestoreAll()
			restoreInputs()
			seqResults[i] = t.run()
		}
		var got string
		eng.ReplayChoices(func(c *eng.Chooser) { got = runScheduled(ts, idx, c).verdict }, rp.Choices)
		return got != "", got
	}
}

// Shared read-only inputs: the goroutines of a scenario use the very same backing arrays.
var (
	inDoc      = []byte(`{"a":[1.5,{"b":"x` + "\\" + `n"}],"` + "\\" + `tk":[true,null,-2.5e3]}`)
	inDoc2     = []byte(` [[1.25],[2.5,[3.75e1]],{"k":[4.5]}] `)
	inDoc3     = []byte(`[{"a":{"b":{}}},[[]],"` + "\\" + `ud83d` + "\\" + `ude00"]`)
	inDoc4     = []byte(`{"alpha":1,"beta":2,"gamma":3,"x` + "\\" + `ty":4}`)
	inFields   = []byte(`2026112917"a` + "\\" + `n"` + `true1.5e3`)
	inDeep6000 = []byte(strings.Repeat("[", 6000) + strings.Repeat("]", 6000))
	inBad      = []byte(`[[1.5],{"a":[2.5,}]`)
	inBadFast  = []byte(`{"a":[1,2`)
	inFloatF   = []byte(`1.5`)
	inFloatEL  = []byte(`123456789012345678e-5 `)
	inFloatS1  = []byte(`9007199254740993.00000000000000000000001`)
	inFloatS2  = []byte(`4503599627370497.5000000000000000000000000000`)
	inFloatOv  = []byte(`[1e999]`)
	inInt      = []byte(`-9223372036854775808,`)
	inUint     = []byte(`18446744073709551615 `)
	inStrEsc   = []byte(`"a` + "\\" + `tb` + "\\" + `u00e9c"`)
	inStrPair1 = []byte(`"` + "\\" + `ud83d` + "\\" + `ude00-` + "\\" + `ud83d` + "\\" + `ude01"`)
	inStrPair2 = []byte(`"` + "\\" + `ud801` + "\\" + `udc37+` + "\\" + `ud852` + "\\" + `udf62"`)
	inLit      = []byte(` true`)
	inNull     = []byte(`null `)
	inUTF8     = []byte("a\xffb\xe2\x82c")
	inDeep     = []byte(strings.Repeat("[", 30) + "1.5" + strings.Repeat("]", 30))
	// documents whose top-level value is a scalar (no child reader involved)
	inTopStr1 = []byte(`"` + strings.Repeat("c", 600) + "\\" + `n` + strings.Repeat("c", 600) + `"`)
	inTopStr2 = []byte(`"` + strings.Repeat("g", 600) + "\\" + `t` + strings.Repeat("g", 600) + `"`)
	inTopNum  = []byte(`12.5`)
	// many distinct escaped member names (any table keyed by name has collisions across the two)
	// nesting deeper than any small fixed threshold (32, 64), arrays and objects
	inDeep70  = []byte(strings.Repeat("[", 70) + "2.5" + strings.Repeat("]", 70))
	inDeepObj = []byte(strings.Repeat(`{"k":`, 45) + "[[3.5]]" + strings.Repeat("}", 45))
	// the same slow-path literals several times in one document / call sequence
	inSlowRep1 = []byte(`[9007199254740993.00000000000000000000001,9007199254740993.00000000000000000000001,2.5e-320,9007199254740993.00000000000000000000001]`)
	inSlowRep2 = []byte(`{"a":4503599627370497.5000000000000000000000000000,"b":7e-320,"c":4503599627370497.5000000000000000000000000000}`)
	// one arena: [0:16) a string token, [16:40) scratch, [40:48) a number, [48:80) scratch
	inArena = func() []byte {
		a := make([]byte, 80)
		copy(a, `"abcdefghijklmn"`)
		copy(a[40:], `1234567 `)
		return a
	}()
	inKeysA = manyEscapedKeys("a", 1100)
	inKeysB = manyEscapedKeys("b", 1100)
)

func manyEscapedKeys(tag string, n int) []byte {
	var b strings.Builder
	b.WriteString("{")
	for i := 0; i < n; i++ {
		if i > 0 {
			b.WriteString(",")
		}
		fmt.Fprintf(&b, `"k%s%s%05d":%d`, U("00e9"), tag, i, i)
	}
	b.WriteString("}")
	return []byte(b.String())
}

// checkManyKeys summarises a decoded many-keys object without formatting it.
func checkManyKeys(v map[string]interface{}, tag string, n int) int {
	ok := 0
	buf := make([]byte, 0, 16)
	for i := 0; i < n; i++ {
		buf = append(buf[:0], "k\u00e9"...)
		buf = append(buf, tag...)
		d := [5]byte{'0', '0', '0', '0', '0'}
		for j, x := 4, i; j >= 0; j, x = j-1, x/10 {
			d[j] = byte('0' + x%10)
		}
		buf = append(buf, d[:]...)
		if f, is := v[string(buf)].(float64); is && int(f) == i {
			ok++
		}
	}
	return ok
}

// sharedInputs lists every shared input with a pristine copy: inputs are restored before each
// explored execution and compared afterwards (a write to a shared read-only input is a data race
// with every concurrent reader of it).
var sharedInputs = func() []struct {
	name string
	buf  []byte
	orig []byte
} {
	type in = struct {
		name string
		buf  []byte
		orig []byte
	}
	mk := func(n string, b []byte) in { return in{n, b, append([]byte(nil), b...)} }
	return []in{mk("inDoc", inDoc), mk("inDoc2", inDoc2), mk("inDoc3", inDoc3), mk("inDoc4", inDoc4), mk("inBad", inBad), mk("inBadFast", inBadFast),
		mk("inFloatF", inFloatF), mk("inFloatEL", inFloatEL), mk("inFloatS1", inFloatS1), mk("inFloatS2", inFloatS2), mk("inFloatOv", inFloatOv), mk("inInt", inInt), mk("inUint", inUint),
		mk("inStrEsc", inStrEsc), mk("inStrPair1", inStrPair1), mk("inStrPair2", inStrPair2), mk("inLit", inLit), mk("inNull", inNull), mk("inUTF8", inUTF8), mk("inDeep", inDeep), mk("inDeep6000", inDeep6000), mk("inFields", inFields),
		mk("inTopStr1", inTopStr1), mk("inTopStr2", inTopStr2), mk("inTopNum", inTopNum), mk("inKeysA", inKeysA), mk("inKeysB", inKeysB),
		mk("inDeep70", inDeep70), mk("inDeepObj", inDeepObj), mk("inSlowRep1", inSlowRep1), mk("inSlowRep2", inSlowRep2)}
}()

func restoreInputs() {
	for _, in := range sharedInputs {
		copy(in.buf, in.orig)
	}
}

func modifiedInput() string {
	for _, in := range sharedInputs {
		if !bytes.Equal(in.buf, in.orig) {
			return fmt.Sprintf("%s: %q became %q", in.name, in.orig, in.buf)
		}
	}
	return ""
}

// handlerPoint is called from handler callbacks of the templates: a scheduling point under the
// cooperative scheduler, nothing otherwise.
var handlerPoint = func() {}

// recurseArrays traverses nested arrays with a handler that recurses through the public API.
func recurseArrays(data []byte, buf *rjson.Buffer) (int, error) {
	return rjson.HandleArrayValues(data, rjson.ArrayValueHandlerFunc(func(d []byte) (int, error) {
		handlerPoint()
		if len(d) > 0 && d[0] == '[' {
			return recurseArrays(d, buf)
		}
		return 0, nil
	}), buf)
}

// exclusiveTemplates write into a fixed region of a shared arena (their own destination): the
// property's precondition (no shared destination) holds between such a template and every OTHER
// template, not between two instances of itself, so it is never run concurrently with itself.
var exclusiveTemplates = map[string]bool{"writer into the region behind those windows": true}

type concTemplate struct {
	name string
	run  func() string
}

// tfmt formats template results. The free-running race pass replaces it by a function without
// any synchronisation: fmt uses a global sync.Pool, whose hand-offs are happens-before edges
// between the goroutines and would blind the race detector.
var tfmt = fmt.Sprintf

func concTemplates() []concTemplate {
	f := func(format string, a ...interface{}) string { return tfmt(format, a...) }
	declA := rjson.ArrayValueHandlerFunc(func([]byte) (int, error) { return 0, nil })
	return []concTemplate{
		{"Valid(doc,nil)", func() string { return f("%v", rjson.Valid(inDoc, nil)) }},
		{"Valid(doc2,buf)", func() string { var b rjson.Buffer; return f("%v %v", rjson.Valid(inDoc2, &b), rjson.Valid(inDeep, &b)) }},
		{"SkipValue(doc2,nil)", func() string { p, err := rjson.SkipValue(inDoc2, nil); return f("%d %v", p, err) }},
		{"SkipValueFast(doc2,buf)", func() string {
			var b rjson.Buffer
			p, err := rjson.SkipValueFast(inDoc2, &b)
			return f("%d %v", p, err)
		}},
		{"SkipValueFast(doc3,nil)", func() string { p, err := rjson.SkipValueFast(inDoc3, nil); return f("%d %v", p, err) }},
		{"ReadValue(doc)", func() string { v, p, err := rjson.ReadValue(inDoc); return f("%v %d %v", v, p, err) }},
		{"ReadValue(doc3)", func() string { v, p, err := rjson.ReadValue(inDoc3); return f("%q %d %v", v, p, err) }},
		{"ValueReader x2", func() string {
			var vr rjson.ValueReader
			v1, p1, e1 := vr.ReadValue(inDoc2)
			v2, p2, e2 := vr.ReadValue(inDoc)
			return f("%v %d %v | %v %d %v", v1, p1, e1, v2, p2, e2)
		}},
		{"ReadObject(doc)", func() string { v, p, err := rjson.ReadObject(inDoc); return f("%v %d %v", v, p, err) }},
		{"ReadArray(doc2)", func() string { v, p, err := rjson.ReadArray(inDoc2); return f("%v %d %v", v, p, err) }},
		{"HandleArrayValues(doc2,decline)", func() string { p, err := rjson.HandleArrayValues(inDoc2, declA, nil); return f("%d %v", p, err) }},
		{"HandleObjectValues(doc,reading)", func() string {
			var out []string
			var b rjson.Buffer
			p, err := rjson.HandleObjectValues(inDoc, rjson.ObjectValueHandlerFunc(func(k, d []byte) (int, error) {
				key, _, _ := rjson.UnescapeStringContent(k, nil)
				out = append(out, string(key))
				return rjson.SkipValue(d, &b)
			}), &b)
			return f("%q %d %v", out, p, err)
		}},
		{"recursive handlers(depth 6000)", func() string { p, err := recurseArrays(inDeep6000, nil); return f("%d %v", p, err) }},
		{"recursive handlers(depth 5500, own buffer)", func() string {
			var b rjson.Buffer
			p, err := recurseArrays(inDeep6000[500:len(inDeep6000)-500], &b)
			return f("%d %v", p, err)
		}},
		{"fixed-width fields A (sub-slices of one buffer)", func() string {
			y, p1, e1 := rjson.ReadUint64(inFields[0:4])
			d, p2, e2 := rjson.ReadFloat64(inFields[6:8])
			s, p3, e3 := rjson.ReadString(inFields[10:15], nil)
			return f("%d %d %v %v %d %v %q %d %v", y, p1, e1, d, p2, e2, s, p3, e3)
		}},
		{"fixed-width fields B (sub-slices of one buffer)", func() string {
			m, p1, e1 := rjson.ReadInt64(inFields[4:6])
			h, p2, e2 := rjson.ReadFloat64(inFields[8:10])
			b, p3, e3 := rjson.ReadBool(inFields[15:19])
			v := rjson.Valid(inFields[4:8], nil)
			return f("%d %d %v %v %d %v %v %d %v %v", m, p1, e1, h, p2, e2, b, p3, e3, v)
		}},
		{"HandleObjectValues(doc4,reused key scratch)", func() string {
			var out []string
			var key []byte
			p, err := rjson.HandleObjectValues(inDoc4, rjson.ObjectValueHandlerFunc(func(k, d []byte) (int, error) {
				var kerr error
				key, _, kerr = rjson.UnescapeStringContent(k, key[:0])
				if kerr != nil {
					return 0, kerr
				}
				out = append(out, string(key))
				return 0, nil
			}), nil)
			return f("%q %d %v", out, p, err)
		}},
		{"ReadValue(top-level string 1)", func() string {
			v, p, err := rjson.ReadValue(inTopStr1)
			s, _ := v.(string)
			return f("%d %d %d %v", len(s), strings.Count(s, "c"), p, err)
		}},
		{"ReadValue(top-level string 2)", func() string {
			v, p, err := rjson.ReadValue(inTopStr2)
			s, _ := v.(string)
			return f("%d %d %d %v", len(s), strings.Count(s, "g"), p, err)
		}},
		{"ReadValue(top-level scalars)", func() string {
			v1, p1, e1 := rjson.ReadValue(inTopNum)
			v2, p2, e2 := rjson.ReadValue(inLit)
			v3, p3, e3 := rjson.ReadValue(inNull)
			v4, p4, e4 := rjson.ReadValue(inStrEsc)
			return f("%v %d %v|%v %d %v|%v %d %v|%v %d %v", v1, p1, e1, v2, p2, e2, v3, p3, e3, v4, p4, e4)
		}},
		{"ReadObject(1100 escaped keys a)", func() string {
			v, p, err := rjson.ReadObject(inKeysA)
			return f("%d %d %d %v", len(v), checkManyKeys(v, "a", 1100), p, err)
		}},
		{"ReadValue(1100 escaped keys b)", func() string {
			v, p, err := rjson.ReadValue(inKeysB)
			m, _ := v.(map[string]interface{})
			return f("%d %d %d %v", len(m), checkManyKeys(m, "b", 1100), p, err)
		}},
		{"ReadObject(doc4)", func() string { v, p, err := rjson.ReadObject(inDoc4); return f("%v %d %v", v, p, err) }},
		{"HandleObjectValues(doc,ValueReader)", func() string {
			var vr rjson.ValueReader
			p, err := rjson.HandleObjectValues(inDoc, &vr, nil)
			return f("%d %v", p, err)
		}},
		{"ReadFloat64(exact)", func() string {
			v, p, err := rjson.ReadFloat64(inFloatF)
			return f("%x %d %v", math.Float64bits(v), p, err)
		}},
		{"ReadFloat64(eisel-lemire)", func() string {
			v, p, err := rjson.ReadFloat64(inFloatEL)
			return f("%x %d %v", math.Float64bits(v), p, err)
		}},
		{"ReadFloat64(slow-1)", func() string {
			v, p, err := rjson.ReadFloat64(inFloatS1)
			return f("%x %d %v", math.Float64bits(v), p, err)
		}},
		{"ReadFloat64(slow-2)", func() string {
			v, p, err := rjson.ReadFloat64(inFloatS2)
			return f("%x %d %v", math.Float64bits(v), p, err)
		}},
		{"ReadValue(overflow)", func() string { v, p, err := rjson.ReadValue(inFloatOv); return f("%v %d %v", v, p, err != nil) }},
		{"ReadInt64/32/Int", func() string {
			a, p1, e1 := rjson.ReadInt64(inInt)
			b, p2, e2 := rjson.ReadInt32(inInt)
			c, p3, e3 := rjson.ReadInt(inInt)
			return f("%d %d %v %d %d %v %d %d %v", a, p1, e1, b, p2, e2 != nil, c, p3, e3)
		}},
		{"ReadUint64/32/Uint", func() string {
			a, p1, e1 := rjson.ReadUint64(inUint)
			b, p2, e2 := rjson.ReadUint32(inUint)
			c, p3, e3 := rjson.ReadUint(inUint)
			return f("%d %d %v %d %d %v %d %d %v", a, p1, e1, b, p2, e2 != nil, c, p3, e3)
		}},
		{"ReadString(esc,scratch)", func() string {
			var sc []byte
			v, p, err := rjson.ReadString(inStrEsc, &sc)
			return f("%q %d %v", v, p, err)
		}},
		{"ReadStringBytes(pair1)", func() string { v, p, err := rjson.ReadStringBytes(inStrPair1, nil); return f("%q %d %v", v, p, err) }},
		{"ReadStringBytes(pair2)", func() string {
			v, p, err := rjson.ReadStringBytes(inStrPair2, make([]byte, 0, 64))
			return f("%q %d %v", v, p, err)
		}},
		{"UnescapeStringContent", func() string {
			v, p, err := rjson.UnescapeStringContent(inStrPair1[1:len(inStrPair1)-1], nil)
			return f("%q %d %v", v, p, err)
		}},
		{"ReadBool/ReadNull", func() string {
			v, p, e := rjson.ReadBool(inLit)
			p2, e2 := rjson.ReadNull(inNull)
			_, _, e3 := rjson.ReadBool(inNull)
			return f("%v %d %v %d %v %v", v, p, e, p2, e2, e3 != nil)
		}},
		{"Decode*", func() string {
			var fl float64
			var i int64
			var s string
			var b bool
			p1, e1 := rjson.DecodeFloat64(inFloatEL, &fl)
			p2, e2 := rjson.DecodeInt64(inInt, &i)
			p3, e3 := rjson.DecodeString(inStrEsc, &s, nil)
			p4, e4 := rjson.DecodeBool(inNull, &b)
			p5, e5 := rjson.DecodeInt64(inStrEsc, &i)
			return f("%v %d %v %d %d %v %q %d %v %v %d %v %d %v", fl, p1, e1, i, p2, e2, s, p3, e3, b, p4, e4, p5, e5 != nil)
		}},
		{"NextToken/Type", func() string {
			t, p, e := rjson.NextToken(inDoc2)
			tt, p2, e2 := rjson.NextTokenType(inLit)
			return f("%c %d %v %v %d %v %s", t, p, e, tt, p2, e2, rjson.TokenType(200).String())
		}},
		{"StdLibCompatible*", func() string {
			a := rjson.StdLibCompatibleString(string(inUTF8))
			b := rjson.StdLibCompatibleStringBytes(inUTF8, nil)
			c := rjson.StdLibCompatibleSlice([]interface{}{string(inUTF8), map[string]interface{}{string(inUTF8): string(inUTF8)}})
			return f("%q %q %q", a, b, c)
		}},
		{"errors: Valid/SkipValue/ReadValue(bad)", func() string {
			p, e := rjson.SkipValue(inBad, nil)
			_, p2, e2 := rjson.ReadValue(inBad)
			return f("%v %d %v %d %v", rjson.Valid(inBad, nil), p, e != nil, p2, e2 != nil)
		}},
		{"fail-then-skip(nil buffers)", func() string {
			_, e0 := rjson.SkipValueFast(inBadFast, nil)
			_, e00 := rjson.SkipValue(inBadFast, nil)
			p, e := rjson.SkipValue(inDoc2, nil)
			p2, e2 := rjson.SkipValueFast(inDoc2, nil)
			return f("%v %v %d %v %d %v %v", e0 != nil, e00 != nil, p, e, p2, e2, rjson.Valid(inDoc2, nil))
		}},
		// a caller-owned Buffer used again and again through every entry point, next to a goroutine
		// that passes nil everywhere: anything that hands an owned Buffer to somebody else (a pool
		// that takes what it did not lend) makes the two share a stack
		{"owned Buffer x5 entry points x4", func() string {
			var b rjson.Buffer
			out := ""
			for i := 0; i < 4; i++ {
				p1, e1 := rjson.SkipValueFast(inDeep, &b)
				p2, e2 := rjson.SkipValue(inDoc2, &b)
				v := rjson.Valid(inDeep70, &b)
				p3, e3 := rjson.HandleArrayValues(inDeep70, declA, &b)
				p4, e4 := rjson.HandleObjectValues(inDeepObj, rjson.ObjectValueHandlerFunc(func(_, _ []byte) (int, error) { return 0, nil }), &b)
				out += f("%d %v %d %v %v %d %v %d %v|", p1, e1, p2, e2, v, p3, e3, p4, e4)
			}
			return out
		}},
		{"nil Buffer x5 entry points x4", func() string {
			out := ""
			for i := 0; i < 4; i++ {
				p1, e1 := rjson.SkipValueFast(inDoc3, nil)
				p2, e2 := rjson.SkipValue(inDeepObj, nil)
				v := rjson.Valid(inDoc2, nil)
				p3, e3 := rjson.HandleArrayValues(inDoc3, declA, nil)
				p4, e4 := rjson.HandleObjectValues(inDoc, rjson.ObjectValueHandlerFunc(func(_, _ []byte) (int, error) { return 0, nil }), nil)
				out += f("%d %v %d %v %v %d %v %d %v|", p1, e1, p2, e2, v, p3, e3, p4, e4)
			}
			return out
		}},
		// an input that is a window with spare capacity, while the region right behind the window
		// is another goroutine's destination (a read beyond len(input) races with that writer)
		{"reads on windows with spare capacity", func() string {
			s1, p1, e1 := rjson.ReadStringBytes(inArena[0:16], nil)
			s2, p2, e2 := rjson.ReadString(inArena[0:16], nil)
			v, p3, e3 := rjson.ReadValue(inArena[0:16])
			f1, p4, e4 := rjson.ReadFloat64(inArena[40:48])
			u1, p5, e5 := rjson.ReadUint64(inArena[40:47])
			p6, e6 := rjson.SkipValue(inArena[0:16], nil)
			ok := rjson.Valid(inArena[40:48], nil)
			return f("%q %d %v %q %d %v %v %d %v %v %d %v %d %d %v %d %v %v", s1, p1, e1, s2, p2, e2, v, p3, e3, f1, p4, e4 != nil, u1, p5, e5, p6, e6, ok)
		}},
		{"writer into the region behind those windows", func() string {
			d1 := rjson.StdLibCompatibleStringBytes(inUTF8, inArena[16:16:40])
			d2, p, err := rjson.UnescapeStringContent(inStrPair1[1:len(inStrPair1)-1], inArena[48:48:80])
			return f("%q %q %d %v", d1, d2, p, err)
		}},
		// declined containers nested deeper than small fixed thresholds, without a Buffer
		{"HandleArrayValues(depth 70,decline,nil)", func() string {
			p, err := rjson.HandleArrayValues(inDeep70, declA, nil)
			p2, err2 := rjson.HandleArrayValues(inDeep, declA, nil)
			return f("%d %v %d %v", p, err, p2, err2)
		}},
		{"HandleObjectValues(depth 45,decline,nil)", func() string {
			p, err := rjson.HandleObjectValues(inDeepObj, rjson.ObjectValueHandlerFunc(func(_, _ []byte) (int, error) { return 0, nil }), nil)
			return f("%d %v", p, err)
		}},
		// repeated slow-path literals (a one-entry memo is warm for the second occurrence)
		{"ReadValue(slow-path literals repeated 1)", func() string {
			v, p, err := rjson.ReadValue(inSlowRep1)
			a, _ := v.([]interface{})
			out := f("%d %v", p, err)
			for _, x := range a {
				fl, _ := x.(float64)
				out += f(" %x", math.Float64bits(fl))
			}
			return out
		}},
		{"ReadObject(slow-path literals repeated 2)", func() string {
			m, p, err := rjson.ReadObject(inSlowRep2)
			fa, _ := m["a"].(float64)
			fb, _ := m["b"].(float64)
			fc, _ := m["c"].(float64)
			return f("%d %v %x %x %x", p, err, math.Float64bits(fa), math.Float64bits(fb), math.Float64bits(fc))
		}},
		{"ReadFloat64(slow-1 x3)", func() string {
			out := ""
			for i := 0; i < 3; i++ {
				v, p, err := rjson.ReadFloat64(inFloatS1)
				out += f("%x %d %v|", math.Float64bits(v), p, err)
			}
			return out
		}},
		{"nested skips(nil buffers)", func() string {
			p, e := rjson.SkipValue(inDeep, nil)
			p2, e2 := rjson.SkipValueFast(inDoc2, nil)
			return f("%d %v %d %v %v", p, e, p2, e2, rjson.Valid(inDoc2, nil))
		}},
	}
}

type schedResult struct {
	verdict   string // "" if the interleaving satisfied the property
	points    int
	switches  int
	conflicts []string
	vars      map[int]int // var -> bitmask of kinds, per goroutine union
	pools     map[unsafe.Pointer]bool
	outcome   string
}

var seqResults = map[int]string{}

// runScheduled runs the chosen templates as goroutines under the cooperative scheduler with the
// schedule given by c, and checks results and the access log.
func runScheduled(ts []concTemplate, idx []int, c *eng.Chooser) schedResult {
	// every execution starts from the package's initial state (first-seen values of all
	// package-level variables), so first-use effects (lazy initialisation) are part of every run
	verifhook.RestoreAll()
	restoreInputs()
	s := eng.NewSched(len(idx), c)
	res := make([]string, len(idx))
	pools := map[unsafe.Pointer]bool{}
	vars := map[int]int{}
	verifhook.Sched = func(id, kind int, addr unsafe.Pointer) {
		if vsync.InOnce > 0 && kind == 1 {
			kind = 0 // initialisation inside sync.Once: ordered before every later reader
		}
		s.LogAccess(id, kind)
		vars[id] |= 1 << uint(kind)
		s.Point()
	}
	vsync.Point = func(p *vsync.Pool, op string) {
		pools[unsafe.Pointer(p)] = true
		s.Point()
	}
	handlerPoint = s.Point
	vatomic.Point = s.Point
	vsync.Yield = s.Yield
	vsync.LockOp = func(m *vsync.Mutex, lock bool) { s.LockOp(m, lock) }
	defer func() {
		verifhook.Sched, vsync.Point, vsync.Yield, vsync.LockOp = nil, nil, nil, nil
		vatomic.Point = nil
		handlerPoint = func() {}
	}()
	bodies := make([]func(), len(idx))
	for i, ti := range idx {
		i, ti := i, ti
		bodies[i] = func() { res[i] = ts[ti].run() }
	}
	pan := s.Run(bodies)
	out := schedResult{points: s.Points, switches: s.Switch, vars: vars, pools: pools, outcome: strings.Join(res, " || ")}
	if pan != "" {
		out.verdict = "panic: " + pan
		return out
	}
	if m := modifiedInput(); m != "" {
		out.verdict = "a shared read-only input was written to (data race with every concurrent reader): " + m
		restoreInputs()
		return out
	}
	for i, ti := range idx {
		if res[i] != seqResults[ti] {
			out.verdict = fmt.Sprintf("goroutine %d (%s) returned %s; run alone it returns %s", i, ts[ti].name, res[i], seqResults[ti])
			return out
		}
	}
	out.conflicts = s.Conflicts()
	if len(out.conflicts) > 0 {
		names := out.conflicts[0]
		out.verdict = "data race on a package-level variable: " + names
	}
	return out
}

func c18(r *eng.Run) {
	if os.Getenv("VERIF_C18_RACE_CHILD") != "" {
		c18RaceChild()
		os.Exit(0)
	}
	ts := concTemplates()
	verifhook.Snapshot = true
	// a first pass only to take the snapshots of every package-level variable at first use
	verifhook.Sched = func(int, int, unsafe.Pointer) {}
	for _, t := range ts {
		t.run()
	}
	verifhook.Sched = nil
	restoreInputs()
	r.Set("package_variables_snapshotted", verifhook.Snapshots())
	// sequential results (each template alone from the initial package state, and again without
	// reset: the second run sees whatever the first left behind in package-level state)
	for i, t := range ts {
		verifhook.RestoreAll()
		restoreInputs()
		a := t.run()
		b := t.run()
		seqResults[i] = a
		if a != b {
			r.Violation(eng.Replay{Engine: "sched", Entry: t.name, Sig: "sequential-nondeterminism/" + t.name, Expected: a, Got: b})
		}
	}
	// Phase A: each template alone under the access logger
	type sets struct {
		vars  map[int]int
		pools map[unsafe.Pointer]bool
		pts   int
	}
	alone := make([]sets, len(ts))
	writes := 0
	pvarsSeen := map[int]bool{}
	for i := range ts {
		c := &eng.Chooser{}
		res := runScheduled(ts, []int{i}, c)
		alone[i] = sets{res.vars, res.pools, res.points}
		for v, k := range res.vars {
			pvarsSeen[v] = true
			if k&2 != 0 {
				writes++
			}
		}
		if res.verdict != "" {
			r.Violation(eng.Replay{Engine: "sched", Entry: ts[i].name, Sig: "alone/" + ts[i].name, Expected: seqResults[i], Got: res.verdict, Extra: map[string]interface{}{"templates": []int{i}}})
		}
	}
	instrumented := len(pvarsSeen) > 0
	r.Set("package_variables_accessed", len(pvarsSeen))
	r.Set("package_variable_writes_seen_alone", writes)
	r.Set("scheduling_points_instrumented", instrumented)
	if !instrumented {
		r.Inexhaustive("package-variable access points are not instrumented in this build (degraded): only pool operations are scheduling points")
	}
	conflict := func(a, b sets) bool {
		for v, ka := range a.vars {
			if kb, ok := b.vars[v]; ok && (ka&2 != 0 || kb&2 != 0 || ka&4 != 0 || kb&4 != 0) {
				// written or address-taken by one and used by the other
				return true
			}
		}
		for p := range a.pools {
			if b.pools[p] {
				return true
			}
		}
		return false
	}
	eng.MaxDeviationPositions = 300
	bound := r.Pick(2, 3)
	thinned := 0
	schedules, scenarios, conflicting, outcomes := 0, 0, 0, map[string]bool{}
	explore := func(idx []int, b int) {
		scenarios++
		first := true
		st := eng.ExploreChoices(func(c *eng.Chooser) {
			res := runScheduled(ts, idx, c)
			outcomes[res.outcome] = true
			if res.verdict != "" && first {
				first = false
				var names []string
				for _, i := range idx {
					names = append(names, ts[i].name)
				}
				// believed only if it reproduces: replay the same schedule twice
				again := runScheduled(ts, idx, &eng.Chooser{})
				_ = again
				var v2 string
				eng.ReplayChoices(func(c2 *eng.Chooser) { v2 = runScheduled(ts, idx, c2).verdict }, c.Trace)
				if v2 == "" {
					r.Note("a failing schedule did not reproduce on replay (ignored): %v %v", names, c.Trace)
					return
				}
				r.Violation(eng.Replay{Engine: "sched", Entry: strings.Join(names, " || "), Sig: "interleaving/" + strings.Join(names, "||"), Choices: append([]int(nil), c.Trace...), Expected: "results equal to the sequential results, no conflicting access", Got: res.verdict,
					Extra: map[string]interface{}{"templates": idx}})
			}
		}, 0, b)
		schedules += st.Executions
		if st.Thinned {
			thinned++
		}
	}
	// Phase B: all unordered pairs (incl. a template with itself) whose sets conflict, plus a
	// fixed subset of non-conflicting pairs (engine liveness on the unchanged tree)
	fixed := 0
	for i := range ts {
		for j := i; j < len(ts); j++ {
			if strings.HasPrefix(ts[i].name, "recursive handlers") && strings.HasPrefix(ts[j].name, "recursive handlers") {
				// long executions (thousands of handler callbacks): one preemption, thinned positions
				explore([]int{i, j}, 1)
			} else if conflict(alone[i], alone[j]) {
				conflicting++
				if alone[i].pts+alone[j].pts > 1500 {
					explore([]int{i, j}, 1) // thousands of points per execution: one preemption, thinned
				} else {
					explore([]int{i, j}, bound)
				}
			} else if (i*7+j*3)%23 == int(r.Seed%23) && fixed < 20 && alone[i].pts+alone[j].pts < 400 {
				fixed++
				explore([]int{i, j}, bound)
			}
		}
		if r.TooMany() {
			break
		}
	}
	if r.Thorough() {
		// triples among the templates that touch written variables / shared pools
		var hot []int
		for i := range ts {
			if conflict(alone[i], alone[i]) {
				hot = append(hot, i)
			}
		}
		for a := 0; a < len(hot) && a < 6; a++ {
			for b := a; b < len(hot) && b < 6; b++ {
				for c := b; c < len(hot) && c < 6; c++ {
					explore([]int{hot[a], hot[b], hot[c]}, 2)
				}
			}
		}
		explore([]int{0, 5, 13}, 1)
	}
	r.Set("scenarios_with_thinned_preemption_positions", thinned)
	if thinned > 0 {
		r.Assume(fmt.Sprintf("%d scenarios have thousands of scheduling points per execution (deep recursive handlers): their preemption positions are thinned to about %d per execution, one preemption; all other scenarios are enumerated completely within the bound", thinned, eng.MaxDeviationPositions))
	}
	r.Set("templates", len(ts))
	r.Set("pairs_total", len(ts)*(len(ts)+1)/2)
	r.Set("pairs_with_conflicting_access_sets", conflicting)
	r.Set("non_conflicting_pairs_explored_anyway", fixed)
	r.Set("scenarios_explored", scenarios)
	r.Set("schedules_run", schedules)
	r.Set("distinct_outcomes", len(outcomes))
	r.Set("preemption_bound", bound)
	r.Set("states", scenarios)
	r.Set("transitions", schedules)
	r.Set("traces_validated_against_impl", schedules)
	r.Set("evaluations", schedules)
	r.Set("distinct_nontrivial", scenarios)
	c18Race(r)
	var names []string
	for i := 0; i < len(ts); i += 7 {
		names = append(names, ts[i].name)
	}
	r.Sample(map[string]interface{}{"kind": "scenario", "goroutines": []string{"ReadFloat64(slow-1)", "ReadFloat64(slow-2)"}, "schedule": "every interleaving at package-variable accesses with <= bound preemptions"})
	r.Sample(map[string]interface{}{"kind": "templates-excerpt", "names": names})
	r.Set("rule", "E4: cooperative scheduler (one goroutine runs at a time; scheduling points at every use of a package-level variable — inserted by the instrumenter — and at every pool / mutex operation); templates cover the whole export set with private Buffer/ValueReader/destination and SHARED input slices. Phase A: each template alone under the access logger (read/write/address-taken sets per package variable, pools used). Phase B: stateless DFS over schedules, preemption bound 1 (quick) / 2 (thorough), for every unordered pair (and hot triples, thorough) whose access sets conflict, and for a fixed subset of non-conflicting pairs; pairs without conflicting accesses are Mazurkiewicz-equivalent to their sequential execution. Oracle per schedule: every call returns its sequential result; no pair of accesses to one variable from two goroutines with a definite write and no common lock. Phase C: free-running -race build of the same templates (auxiliary, for writes through aliases).")
	r.Assume("interleavings are sequentially consistent and at the granularity of instrumented accesses; weak-memory effects and writes through aliases between two points are outside the model (the -race pass is the auxiliary detector for the latter); participants: 2 goroutines (3 in thorough)")
}

// ---- Phase C: free-running race pass (separate -race binary) ------------------------------------

func c18RaceChild() {
	tfmt = func(string, ...interface{}) string { return "" }
	ts := concTemplates()
	var wg sync.WaitGroup
	rounds := 30
	for round := 0; round < rounds; round++ {
		for g := 0; g < 8; g++ {
			wg.Add(1)
			go func(g int) {
				defer wg.Done()
				for k := 0; k < len(ts); k++ {
					t := ts[(k*5+g*3+round)%len(ts)]
					if exclusiveTemplates[t.name] && g != 0 {
						continue // writes to a fixed region: two instances of it would share a destination
					}
					t.run()
				}
			}(g)
		}
		wg.Wait()
	}
	// isolated pairs: two goroutines, one template each, inputs restored before (the library's own
	// use of sync.Pool / fmt creates happens-before edges that mask races in long runs; short
	// isolated pairs keep the accesses unordered)
	for i := range ts {
		for j := i; j < len(ts); j++ {
			if i == j && exclusiveTemplates[ts[i].name] {
				continue
			}
			restoreInputs()
			var w2 sync.WaitGroup
			w2.Add(2)
			go func() { defer w2.Done(); ts[i].run() }()
			go func() { defer w2.Done(); ts[j].run() }()
			w2.Wait()
		}
	}
	fmt.Println("RACE-CHILD-DONE")
}

func c18Race(r *eng.Run) {
	exe := os.Getenv("VERIF_RACE_HARNESS")
	if exe == "" {
		r.Note("race-detector build not available: phase C skipped")
		r.Set("race_pass", "skipped")
		return
	}
	cmd := exec.Command(exe, "-id", "C18")
	cmd.Env = append(os.Environ(), "VERIF_C18_RACE_CHILD=1", "GORACE=halt_on_error=0 history_size=3")
	var out bytes.Buffer
	cmd.Stdout = &out
	cmd.Stderr = &out
	done := make(chan error, 1)
	if err := cmd.Start(); err != nil {
		r.Set("race_pass", "could not start")
		return
	}
	go func() { done <- cmd.Wait() }()
	select {
	case <-done:
	case <-time.After(10 * time.Minute):
		_ = cmd.Process.Kill()
	}
	text := out.String()
	n := strings.Count(text, "WARNING: DATA RACE")
	r.Set("race_pass", fmt.Sprintf("completed=%v races=%d", strings.Contains(text, "RACE-CHILD-DONE"), n))
	if n > 0 {
		i := strings.Index(text, "WARNING: DATA RACE")
		excerpt := text[i:]
		if len(excerpt) > 1500 {
			excerpt = excerpt[:1500]
		}
		// signature: the first library frame
		sig := "race"
		for _, l := range strings.Split(excerpt, "\n") {
			if strings.Contains(l, "github.com/willabides/rjson") && !strings.Contains(l, "verifharness") {
				sig = "race/" + strings.TrimSpace(l)
				break
			}
		}
		r.Violation(eng.Replay{Engine: "race", Entry: "free-running templates", Sig: sig, Expected: "no data race between calls that share only read-only input", Got: excerpt})
	}
	// every template returns normally when run alone (phase A); a Go panic or a runtime fatal
	// error about concurrent map access in the free-running pass therefore comes from concurrency
	if !strings.Contains(text, "RACE-CHILD-DONE") {
		for _, mark := range []string{"panic: ", "fatal error: concurrent map"} {
			if i := strings.Index(text, mark); i >= 0 {
				excerpt := text[i:]
				if len(excerpt) > 1500 {
					excerpt = excerpt[:1500]
				}
				first := excerpt
				if j := strings.Index(first, "\n"); j > 0 {
					first = first[:j]
				}
				r.Violation(eng.Replay{Engine: "race", Entry: "free-running templates", Sig: "crash/" + first, Expected: "concurrent calls return what they return sequentially", Got: excerpt})
				return
			}
		}
		r.Inexhaustive("the free-running race pass did not complete (timeout or resource limit)")
	}
}
