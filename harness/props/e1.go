package props

import (
	"bytes"
	"fmt"
	"os"
	"strings"
	"sync"

	"verifharness/eng"
	"verifharness/ref"
)

// e1Spec describes one E1 exploration: which real call provides the implementation
// configuration, how a node is checked, and how the reference state refines the key.
type e1Spec struct {
	entry string
	// probe is run under the hooks to obtain the implementation configuration.
	probe func(w []byte)
	// probes, if set, are run one after another under the hooks and their configurations are
	// concatenated (product key of several machines).
	probes []func(w []byte)
	// check compares implementation and oracles on w. a is the reference PDA after w (digit
	// saturation digSat). bad=="" means agreement. oracleFault means reference != stdlib.
	check func(w []byte, a *ref.PDA) (bad string, oracleFault bool, exp, got string)
	// refKey / alive / depth default to the PDA's own.
	refKey func(w []byte, a *ref.PDA) string
	alive  func(w []byte, a *ref.PDA) bool
	// after a panic the driver calls reset (rebuild shared buffers).
	reset    func()
	machines []string
	digSat   int
	maxLen   int
	// noWindow disables the second run of every node as a window into a larger buffer
	noWindow bool
	noPump   bool
	// pumpN / pumpTail override the pumping bounds (default 9/8 quick, 17/16 thorough)
	pumpN, pumpTail int
	// handWritten: part of the explored code is hand-written (no liveness hook), so recovery
	// exploration past reference-dead children is always on.
	handWritten bool
	// refAliveOnly: an implementation that is still alive where the reference is dead does not
	// extend the search (used where the property only constrains reference-accepted inputs).
	refAliveOnly bool
	roots        [][]byte
}

type e1Result struct {
	st        eng.PfxStats
	validated int
	pumped    int
	oracle    int
}

func runE1(r *eng.Run, sp e1Spec, D, K, maxStates int) e1Result {
	var res e1Result
	if sp.digSat == 0 {
		sp.digSat = 3
	}
	if sp.maxLen == 0 {
		sp.maxLen = 48
	}
	if os.Getenv("VERIF_LIGHT") != "" {
		// secondary passes (32-bit build): the byte-level search without pumping and window runs
		sp.noPump, sp.noWindow = true, true
	}
	wb := whitebox()
	expanding := true
	visit := func(w []byte) (string, bool) {
		eng.Beat(w)
		a := ref.RunSat(w, sp.digSat)
		cfg, implAlive := "-", false
		orig := append([]byte(nil), w...)
		pan := guard(func() {
			if sp.probe != nil {
				cfg, implAlive = hooked(func() { sp.probe(w) })
			}
			for _, pr := range sp.probes {
				c, al := hooked(func() { pr(w) })
				cfg += "&" + c
				implAlive = implAlive || al
			}
			bad, of, exp, got := sp.check(w, a)
			if bad == "" && !of && !sp.noWindow && expanding {
				// the same input as a window into a larger buffer whose next bytes continue the
				// current token: the result must not depend on what lies beyond len(input) (no
				// read past the end), and nothing beyond it may be written
				tail := append(append([]byte(nil), a.Completion()...), windowTail...)
				big := append(append(make([]byte, 0, len(w)+len(tail)), w...), tail...)
				win := big[:len(w)]
				bad, of, exp, got = sp.check(win, a)
				if bad != "" {
					bad = "window-into-larger-buffer/" + bad
				} else if !bytes.Equal(big[len(w):], tail) {
					bad, exp, got = "write-beyond-len(input)", fmt.Sprintf("%q", tail), fmt.Sprintf("%q", big[len(w):])
				} else if !bytes.Equal(win, w) {
					bad, exp, got = "input-modified", fmt.Sprintf("%q", w), fmt.Sprintf("%q", win)
				}
			}
			if of {
				res.oracle++
				if res.oracle <= 5 {
					r.Note("ORACLE-DISAGREEMENT %s %s on %q: stdlib=%s reference=%s", sp.entry, bad, w, exp, got)
				}
				return
			}
			res.validated++
			if bad != "" {
				r.Violation(eng.Replay{Engine: "pfx", Entry: sp.entry, Sig: bad + "/" + shortSig(orig), InputB64: orig, Expected: exp, Got: got})
			}
		})
		if pan != "" {
			r.Violation(eng.Replay{Engine: "pfx", Entry: sp.entry, Sig: "panic/" + shortSig(orig), InputB64: orig, Expected: "returns normally", Got: "panic: " + pan})
			if sp.reset != nil {
				sp.reset()
			}
		}
		if !bytes.Equal(orig, w) {
			r.Violation(eng.Replay{Engine: "pfx", Entry: sp.entry, Sig: "input-modified/" + shortSig(orig), InputB64: orig, Expected: "input unchanged", Got: fmt.Sprintf("%q", w)})
			copy(w, orig)
		}
		if !expanding {
			return "", false
		}
		rk := a.Key()
		if sp.refKey != nil {
			rk = sp.refKey(w, a)
		}
		key := cfg + "#" + rk + "#" + eng.ClassSuffix(w, K)
		al := a.Alive()
		if sp.alive != nil {
			al = sp.alive(w, a)
		}
		expand := (al || (wb && implAlive && !sp.refAliveOnly)) && a.Depth() <= D && len(w) <= sp.maxLen
		return key, expand
	}
	thorough := r.Thorough()
	eng.PumpKey = func(key string) string {
		// quick: machine state (function@cs) or, for hand-written code, the reference phase;
		// thorough: full implementation configuration + reference state.
		i := strings.IndexByte(key, '#')
		if i < 0 {
			return key
		}
		rest := key[i+1:]
		if j := strings.IndexByte(rest, '#'); j >= 0 {
			rest = rest[:j]
		}
		if thorough {
			// thorough: machine configuration with its stack + reference phase (without counters)
			if k := strings.IndexByte(rest, '|'); k >= 0 {
				rest = rest[k:]
			}
			if k := strings.IndexAny(rest, ":w"); k >= 0 {
				rest = rest[:k]
			}
			return key[:i] + "#" + rest
		}
		cfg := key[:i]
		if cfg == "-" {
			if k := strings.IndexByte(rest, '|'); k >= 0 {
				rest = rest[k:]
			}
			return rest
		}
		if k := strings.IndexByte(cfg, '/'); k >= 0 {
			cfg = cfg[:k]
		}
		return cfg
	}
	delta := 0
	if sp.probe == nil || !wb || sp.handWritten {
		// no (complete) liveness hook: explore one level past reference-dead children
		delta = r.Pick(1, 2)
	} else if r.Thorough() {
		delta = 1
	}
	eng.Complete = func(x []byte) []byte { return ref.Run(x).Completion() }
	res.st = eng.PfxBFSDelta(r, sp.roots, visit, maxStates, delta)
	r.Set("delta_recovery_levels", delta)
	if res.st.Capped {
		r.Inexhaustive(fmt.Sprintf("state cap %d reached (or too many violations)", maxStates))
	}
	if !sp.noPump && !r.TooMany() {
		expanding = false
		pn, pt := r.Pick(17, 65), r.Pick(16, 32)
		if sp.pumpN > 0 {
			pn, pt = sp.pumpN, sp.pumpTail
		}
		res.pumped = eng.Pump(r, res.st.Loops, visit, func(x []byte) []byte { return ref.Run(x).Completion() }, pn, pt)
	}
	if res.oracle > 0 {
		r.Inexhaustive(fmt.Sprintf("reference model disagrees with the standard library on %d inputs (oracle fault, not a violation)", res.oracle))
	}
	return res
}

// e1Evidence writes the common evidence keys of an E1 run (possibly summed over several specs).
func e1Evidence(r *eng.Run, D, K int, results ...e1Result) {
	var states, trans, val, pumped, oracle, maxLen, loops int
	for _, x := range results {
		states += x.st.States
		trans += x.st.Transitions
		val += x.validated
		pumped += x.pumped
		oracle += x.oracle
		loops += len(x.st.Loops)
		if x.st.MaxLen > maxLen {
			maxLen = x.st.MaxLen
		}
	}
	r.Set("states", states)
	r.Set("transitions", trans+pumped)
	r.Set("bfs_transitions", trans)
	r.Set("pump_runs", pumped)
	r.Set("pump_loop_representatives", loops)
	r.Set("traces_validated_against_impl", val)
	r.Set("max_bfs_input_len", maxLen)
	r.Set("nesting_bound_D", D)
	r.Set("class_suffix_k", K)
	r.Set("oracle_disagreements", oracle)
	r.Add("evaluations", trans+pumped)
	r.Add("distinct_nontrivial", states)
}

const e1Rule = "E1: BFS over product states (configuration of the real generated machine at end of input x reference automaton state x class of the last k bytes); every expanded node is extended by all 256 bytes and each resulting input is run on the real code and compared with the reference model and the standard library. Pumping pass: every self-loop (state, byte class) is repeated n times, followed by every byte and a tail, with and without the shortest completion. distinct_nontrivial = distinct expanded (alive, within nesting bound) product states."

// windowTail follows the completion of the current token in the larger buffer of window runs.
var windowTail = []byte(`5e1"]}:,0 ` + "\x00")

// longRunFamily returns inputs in which a run (string body, key body, white space, integer /
// fraction / exponent digits) has a length round a power of two (255..65537), is followed by each
// interesting byte, and is then completed: position-dependent look-ahead windows and block sizes.
func longRunFamily(thorough bool) [][]byte {
	lens := []int{255, 256, 257, 1023, 1024, 1025, 4095, 4096, 4097}
	if thorough {
		lens = append(lens, 8191, 8192, 8193, 65535, 65536, 65537)
	}
	type kind struct{ pre, unit, post string }
	kinds := []kind{
		{`"`, "x", `"`}, {`["`, "x", `"]`}, {`{"`, "k", `":1}`}, {`{"a":"`, "v", `"}`}, {`[1,"`, "x", `",2]`}, {`{"a":1,"`, "k", `":2}`},
		{`[`, " ", `1]`}, {``, "\n", `1`}, {`[1`, " ", `]`}, {`{"a"`, "\t", `:1}`},
		{`[1`, "0", `]`}, {`[1.`, "5", `]`}, {`[1e`, "0", `1]`}, {`-`, "9", ``},
	}
	specials := []string{"", `"`, "\\", "\\\"", "\\n", "\x1f", "\x00", "\x7f", "\xff", ":", "e", ".", ",", "]", "}", " ", "-", "0"}
	var out [][]byte
	for _, k := range kinds {
		for _, L := range lens {
			run := strings.Repeat(k.unit, L)
			for _, sp := range specials {
				out = append(out, []byte(k.pre+run+sp+k.post))
				out = append(out, []byte(k.pre+run+sp+k.unit+k.unit+k.post))
			}
		}
	}
	return out
}

// stringShapeFamily: white space prefix x plain run x escaped quote x plain run, every length
// 0..9 each, at top level and inside containers.
func stringShapeFamily() [][]byte {
	var out [][]byte
	for i := 0; i <= 9; i++ {
		for j := 0; j <= 9; j++ {
			for k := 0; k <= 9; k += 3 {
				s := strings.Repeat(" ", i) + `"` + strings.Repeat("a", j) + "\\" + `"` + strings.Repeat("b", k) + `"`
				out = append(out, []byte(s+", 1"), []byte("["+s+"]"), []byte(`{"k":`+s+`}`), []byte(`{`+s+`:1}`))
			}
		}
	}
	return out
}

// runFamily evaluates a list of inputs through an E1 check function (no exploration).
func runFamily(r *eng.Run, name, entry string, inputs [][]byte, check func(w []byte, a *ref.PDA) (string, bool, string, string)) int {
	for _, in := range inputs {
		w := eng.Exact(in)
		eng.Beat(w)
		a := ref.Run(w)
		var bad, exp, got string
		var of bool
		pan := guard(func() { bad, of, exp, got = check(w, a) })
		if pan != "" {
			bad, exp, got = "panic", "returns normally", pan
		}
		if of {
			r.Inexhaustive(fmt.Sprintf("oracle disagreement in family %s: %s", name, bad))
			continue
		}
		if bad != "" {
			r.Violation(eng.Replay{Engine: "pfx", Entry: entry, Sig: bad + "/" + name + "/" + shortSig(w), InputB64: w, Expected: exp, Got: got})
		}
	}
	r.Add("evaluations", len(inputs))
	r.Set("family_"+name, len(inputs))
	return len(inputs)
}

// pairSpecials: bytes next to which a neighbour matters to word-at-a-time scanners and byte-class
// tables (controls, quote and backslash and their successors, brackets, DEL, the UTF-8 lead /
// continuation boundaries).
var pairSpecials = []byte{0x00, 0x01, 0x08, 0x09, 0x0a, 0x0d, 0x1f, 0x20, 0x21, 0x22, 0x23, 0x2c, 0x2f, 0x3a, 0x5b, 0x5c, 0x5d, 0x7b, 0x7d, 0x7e, 0x7f, 0x80, 0x9f, 0xa0, 0xbf, 0xc0, 0xc2, 0xe0, 0xf0, 0xf4, 0xff}

// bytePairSweep calls f on strings of 20 plain bytes in which two adjacent bytes (b1, b2) sit at
// offset 0..16, for every pair with at least one special byte, in each context (a context is a
// prefix / suffix pair round the string token).
func bytePairSweep(ctxs [][2]string, f func(w []byte)) int {
	type pair struct{ a, b byte }
	var pairs []pair
	isSp := [256]bool{}
	for _, c := range pairSpecials {
		isSp[c] = true
	}
	for a := 0; a < 256; a++ {
		for b := 0; b < 256; b++ {
			if isSp[a] || isSp[b] {
				pairs = append(pairs, pair{byte(a), byte(b)})
			}
		}
	}
	n := 0
	body := make([]byte, 20)
	for _, pr := range pairs {
		for pos := 0; pos <= 16; pos++ {
			for j := range body {
				body[j] = 'a'
			}
			body[pos], body[pos+1] = pr.a, pr.b
			// the full body, and the body cut right after the pair (the pair next to the closing quote)
			for _, bd := range [][]byte{body, body[:pos+2]} {
				for _, cx := range ctxs {
					w := make([]byte, 0, len(cx[0])+len(bd)+len(cx[1])+2)
					w = append(w, cx[0]...)
					w = append(w, '"')
					w = append(w, bd...)
					w = append(w, '"')
					w = append(w, cx[1]...)
					f(eng.Exact(w))
				}
			}
		}
	}
	n = len(pairs) * 17 * 2 * len(ctxs)
	return n
}

var pairCtxAll = [][2]string{{"", ""}, {"[", ", 1, 2, 3]"}, {`{"k":`, `,"z":1}`}, {"{", ":1}"}}

// runPairSweep evaluates the byte-pair sweep through an E1 check function.
func runPairSweep(r *eng.Run, entry string, ctxs [][2]string, check func(w []byte, a *ref.PDA) (string, bool, string, string)) {
	var mu sync.Mutex
	n := bytePairSweep(ctxs, func(w []byte) {
		a := ref.Run(w)
		var bad, exp, got string
		var of bool
		pan := guard(func() { bad, of, exp, got = check(w, a) })
		if pan != "" {
			bad, exp, got = "panic", "returns normally", pan
		}
		if bad == "" {
			return
		}
		mu.Lock()
		defer mu.Unlock()
		if of {
			r.Inexhaustive("oracle disagreement in the byte-pair sweep: " + bad)
			return
		}
		r.Violation(eng.Replay{Engine: "pfx", Entry: entry, Sig: bad + "/byte-pair/" + shortSig(w), InputB64: w, Expected: exp, Got: got})
	})
	r.Add("evaluations", n)
	r.Set("family_byte_pairs", n)
}

// depthSiteFamily: every way of opening a level (first / later array element, first / later
// member value) repeated d-1 times, then every way of opening the last level, then a small
// container, for d = 1..maxD: every push site of the machines at every stack size a growth
// policy can distinguish.
func depthSiteFamily(maxD int) [][]byte {
	type op struct{ open, close string }
	ops := []op{{"[", "]"}, {`{"k":`, "}"}, {"[0,", "]"}, {`{"a":0,"k":`, "}"}}
	var out [][]byte
	for d := 1; d <= maxD; d++ {
		for _, outer := range ops {
			for _, last := range ops {
				for _, inner := range []string{"[1]", `{"x":1}`} {
					s := strings.Repeat(outer.open, d-1) + last.open + inner + last.close + strings.Repeat(outer.close, d-1)
					// bare, and as the value of a member / element of either top-level kind
					out = append(out, []byte(s), []byte(`{"w":`+s+`}`), []byte(`{"a":0,"w":`+s+`}`), []byte("[0,"+s+"]"))
				}
			}
		}
	}
	return out
}
