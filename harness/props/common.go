// Package props has one driver per property: it builds the alphabets, calls the engines and
// states the oracle.
package props

import (
	"bytes"
	"encoding/json"
	"fmt"
	"sort"
	"strconv"
	"strings"

	"github.com/willabides/rjson"
	"github.com/willabides/rjson/verifhook"

	"verifharness/eng"
	"verifharness/ref"
)

// Registry maps property id to driver.
var Registry = map[string]func(r *eng.Run){}

// implCfg returns the implementation half of an E1 key: the configuration in which the first
// machine met end of input during the last execution, or "-" if none did.
func implCfg() (string, bool) {
	ev, ok := verifhook.First()
	if !ok {
		return "-", false
	}
	b := make([]byte, 0, 48)
	b = append(b, ev.Fn...)
	b = append(b, '@')
	b = strconv.AppendInt(b, int64(ev.Cs), 10)
	b = append(b, '/')
	b = strconv.AppendInt(b, int64(ev.Depth), 10)
	b = append(b, '[')
	for _, s := range ev.Stack {
		b = strconv.AppendInt(b, int64(s), 10)
		b = append(b, ',')
	}
	b = append(b, ']')
	return string(b), true
}

// hooked runs f with hook recording on and returns the implementation configuration.
func hooked(f func()) (cfg string, alive bool) {
	verifhook.Reset()
	verifhook.On = true
	defer func() { verifhook.On = false }()
	f()
	return implCfg()
}

// whitebox reports whether the build carries machine hooks (instrumentation succeeded).
func whitebox() bool { return len(verifhook.Totals) > 0 }

// coverageReport summarises state coverage of the given machine functions.
func coverageReport(r *eng.Run, fns ...string) {
	if !whitebox() {
		r.Set("whitebox", false)
		return
	}
	r.Set("whitebox", true)
	cov := map[string]string{}
	for _, fn := range fns {
		tot := verifhook.Totals[fn]
		hit := len(verifhook.Seen[fn])
		cov[fn] = fmt.Sprintf("%d/%d", hit, tot)
		if tot > 0 && hit < tot {
			// list the states never seen at end of input
			var miss []int
			for cs := 1; cs <= tot; cs++ {
				if verifhook.Seen[fn][cs] == 0 {
					miss = append(miss, cs)
				}
			}
			if len(miss) > 40 {
				miss = miss[:40]
			}
			cov[fn] += fmt.Sprintf(" unseen(cs)=%v", miss)
		}
	}
	r.Set("machine_states_seen_at_eof", cov)
}

// usedBuffer returns a Buffer that has been driven through a nested document, an aborted parse
// and a depth-limited parse.
func usedBuffer() *rjson.Buffer {
	b := &rjson.Buffer{}
	rjson.Valid([]byte(`{"a":[[1,{"b":[2]}]]}`), b)
	rjson.SkipValue([]byte(`[[[1,`), b)
	rjson.SkipValue([]byte(`[{"a":[}`), b)
	return b
}

// guard runs f, converting a panic into an error string.
func guard(f func()) (panicked string) {
	defer func() {
		if x := recover(); x != nil {
			panicked = fmt.Sprint(x)
		}
	}()
	f()
	return ""
}

// stdFirstValue is encoding/json's streaming decoder view of the first value.
func stdFirstValue(w []byte) (bool, int) {
	dec := json.NewDecoder(bytes.NewReader(w))
	var raw json.RawMessage
	if err := dec.Decode(&raw); err != nil {
		return false, 0
	}
	return true, int(dec.InputOffset())
}

func errStr(err error) string {
	if err == nil {
		return "nil"
	}
	return "err(" + err.Error() + ")"
}

func okStr(ok bool, p int) string {
	if ok {
		return fmt.Sprintf("ok p=%d", p)
	}
	return "error"
}

// shortSig abbreviates an input for use in a violation signature.
func shortSig(w []byte) string {
	s := strconv.Quote(string(w))
	if len(s) > 60 {
		s = s[:60] + "..."
	}
	return strings.ReplaceAll(s, " ", "\\x20")
}

func sortedKeys(m map[string]int) []string {
	var ks []string
	for k := range m {
		ks = append(ks, k)
	}
	sort.Strings(ks)
	return ks
}

var _ = ref.MaxDepth

var giantBuf *rjson.Buffer

// giantBuffer returns a Buffer whose stack has been grown beyond the depth limit by a handler
// traversal (the handler machines have no depth limit of their own) of a 12,000-deep document.
func giantBuffer() *rjson.Buffer {
	if giantBuf == nil {
		giantBuf = &rjson.Buffer{}
		doc := bytes.Repeat([]byte("["), 12000)
		doc = append(doc, bytes.Repeat([]byte("]"), 12000)...)
		_, _ = rjson.HandleArrayValues(doc, rjson.ArrayValueHandlerFunc(func(d []byte) (int, error) { return 0, nil }), giantBuf)
		odoc := bytes.Repeat([]byte(`{"a":`), 12000)
		odoc = append(odoc, '1')
		odoc = append(odoc, bytes.Repeat([]byte("}"), 12000)...)
		_, _ = rjson.HandleObjectValues(odoc, rjson.ObjectValueHandlerFunc(func(k, d []byte) (int, error) { return 0, nil }), giantBuf)
	}
	return giantBuf
}

// U spells a JSON unicode escape (written this way so that no tool in between can decode it).
func U(hex4 string) string { return "\\u" + hex4 }
