package props

import (
	"fmt"
	"math"
	"math/big"
	"runtime"
	"runtime/debug"
	"strconv"
	"strings"

	"github.com/willabides/rjson"

	"verifharness/eng"
	"verifharness/ref"
)

func init() {
	Registry["C19"] = c19
	Replayers["C19"] = func(rp *eng.Replay) (bool, string) {
		fam, _ := rp.Extra["family"].(string)
		for _, f := range allocFamilies() {
			if f.name == fam {
				runtime.GOMAXPROCS(1)
				old := debug.SetGCPercent(-1)
				defer debug.SetGCPercent(old)
				if seq, ok := rp.Extra["sequence"].([]interface{}); ok && len(seq) > 1 {
					var win [][]byte
					for _, x := range seq {
						str, _ := x.(string)
						win = append(win, eng.Exact([]byte(str)))
					}
					for _, w := range win {
						if f.warm != nil {
							f.warm(w)
						}
						f.call(w)
					}
					rep := append(append(append([][]byte{}, win...), win...), win...)
					n := mallocsMin(f, rep, 5)
					return n > 0, fmt.Sprintf("%s allocates %d objects over three rounds of the %d-input sequence", fam, n, len(win))
				}
				w := eng.Exact(rp.InputB64)
				if f.warm != nil {
					f.warm(w)
				}
				if !f.call(w) {
					return false, "call does not succeed on this input"
				}
				n := mallocsMin(f, [][]byte{w}, 5)
				return n > 0, fmt.Sprintf("%s allocates %d objects per successful call", fam, n)
			}
		}
		return false, "unknown family " + fam
	}
}

// allocFamily is one entry point under its C19 precondition. call must not allocate in the
// harness itself; it returns whether the call succeeded. warm prepares buffers for input w.
type allocFamily struct {
	name string
	call func(w []byte) bool
	warm func(w []byte)
	// accept filters the node set (e.g. only inputs starting with '[' for array traversal)
	accept func(w []byte) bool
}

var (
	c19Buf       rjson.Buffer
	c19Buf2      rjson.Buffer
	c19Dst       = make([]byte, 0, 1<<16)
	c19Arena     = make([]byte, 1<<17)
	c19Buf3      rjson.Buffer
	c19Buf4      rjson.Buffer
	c19Buf5      rjson.Buffer
	c19Buf6      rjson.Buffer
	c19Decline   = rjson.ArrayValueHandler(rjson.ArrayValueHandlerFunc(func([]byte) (int, error) { return 0, nil }))
	c19DeclineO  = rjson.ObjectValueHandler(rjson.ObjectValueHandlerFunc(func(_, _ []byte) (int, error) { return 0, nil }))
	c19Skip      = rjson.ArrayValueHandler(rjson.ArrayValueHandlerFunc(func(d []byte) (int, error) { return rjson.SkipValue(d, &c19Buf2) }))
	c19SkipO     = rjson.ObjectValueHandler(rjson.ObjectValueHandlerFunc(func(_, d []byte) (int, error) { return rjson.SkipValue(d, &c19Buf2) }))
	c19SkipSame  = rjson.ArrayValueHandler(rjson.ArrayValueHandlerFunc(func(d []byte) (int, error) { return rjson.SkipValue(d, &c19Buf) }))
	c19SkipSameO = rjson.ObjectValueHandler(rjson.ObjectValueHandlerFunc(func(_, d []byte) (int, error) { return rjson.SkipValueFast(d, &c19Buf) }))
	c19F         float64
	c19I64       int64
	c19I32       int32
	c19I         int
	c19U64       uint64
	c19U32       uint32
	c19U         uint
	c19B         bool
)

func firstByte(w []byte) byte {
	for _, b := range w {
		if !ref.IsWS(b) {
			return b
		}
	}
	return 0
}

func allocFamilies() []allocFamily {
	warmBufs := func(w []byte) {
		rjson.SkipValue(w, &c19Buf)
		rjson.SkipValue(w, &c19Buf2)
		rjson.SkipValueFast(w, &c19Buf)
		rjson.HandleArrayValues(w, c19Decline, &c19Buf)
		rjson.HandleObjectValues(w, c19DeclineO, &c19Buf)
	}
	isNum := func(w []byte) bool { b := firstByte(w); return b == '-' || (b >= '0' && b <= '9') }
	return []allocFamily{
		{"Valid", func(w []byte) bool { return rjson.Valid(w, &c19Buf) }, warmBufs, nil},
		{"SkipValue", func(w []byte) bool { _, err := rjson.SkipValue(w, &c19Buf); return err == nil }, warmBufs, nil},
		{"SkipValueFast", func(w []byte) bool { _, err := rjson.SkipValueFast(w, &c19Buf); return err == nil }, warmBufs, nil},
		{"HandleArrayValues/decline", func(w []byte) bool { _, err := rjson.HandleArrayValues(w, c19Decline, &c19Buf); return err == nil }, warmBufs, func(w []byte) bool { b := firstByte(w); return b == '[' || b == 'n' }},
		{"HandleObjectValues/decline", func(w []byte) bool { _, err := rjson.HandleObjectValues(w, c19DeclineO, &c19Buf); return err == nil }, warmBufs, func(w []byte) bool { b := firstByte(w); return b == '{' || b == 'n' }},
		{"HandleArrayValues/skipping-handler", func(w []byte) bool { _, err := rjson.HandleArrayValues(w, c19Skip, &c19Buf); return err == nil }, warmBufs, func(w []byte) bool { return firstByte(w) == '[' }},
		{"HandleObjectValues/skipping-handler", func(w []byte) bool { _, err := rjson.HandleObjectValues(w, c19SkipO, &c19Buf); return err == nil }, warmBufs, func(w []byte) bool { return firstByte(w) == '{' }},
		// handlers that re-enter the library with the SAME warmed Buffer (the repository's own benchmark idiom)
		{"HandleArrayValues/handler-reenters-same-buffer", func(w []byte) bool { _, err := rjson.HandleArrayValues(w, c19SkipSame, &c19Buf); return err == nil }, warmBufs, func(w []byte) bool { return firstByte(w) == '[' }},
		{"HandleObjectValues/handler-reenters-same-buffer", func(w []byte) bool { _, err := rjson.HandleObjectValues(w, c19SkipSameO, &c19Buf); return err == nil }, warmBufs, func(w []byte) bool { return firstByte(w) == '{' }},
		// Buffers that have only ever been used by this very call ("already used on a document at
		// least as deeply nested" is met by the call's own warm-up; nothing else grows them)
		{"HandleArrayValues/skipping-handler/buffers warmed by this call only", func(w []byte) bool {
			_, err := rjson.HandleArrayValues(w, rjson.ArrayValueHandlerFunc(func(d []byte) (int, error) { return rjson.SkipValue(d, &c19Buf4) }), &c19Buf3)
			return err == nil
		}, func(w []byte) {
			rjson.HandleArrayValues(w, rjson.ArrayValueHandlerFunc(func(d []byte) (int, error) { return rjson.SkipValue(d, &c19Buf4) }), &c19Buf3)
		}, func(w []byte) bool { return firstByte(w) == '[' }},
		{"HandleObjectValues/skipping-handler/buffers warmed by this call only", func(w []byte) bool {
			_, err := rjson.HandleObjectValues(w, rjson.ObjectValueHandlerFunc(func(_, d []byte) (int, error) { return rjson.SkipValue(d, &c19Buf6) }), &c19Buf5)
			return err == nil
		}, func(w []byte) {
			rjson.HandleObjectValues(w, rjson.ObjectValueHandlerFunc(func(_, d []byte) (int, error) { return rjson.SkipValue(d, &c19Buf6) }), &c19Buf5)
		}, func(w []byte) bool { return firstByte(w) == '{' }},
		{"ReadStringBytes", func(w []byte) bool { _, _, err := rjson.ReadStringBytes(w, c19Dst[:0]); return err == nil }, nil, func(w []byte) bool { return firstByte(w) == '"' }},
		{"UnescapeStringContent", func(w []byte) bool { _, _, err := rjson.UnescapeStringContent(w, c19Dst[:0]); return err == nil }, nil, nil},
		// the property's minimal precondition: spare capacity of exactly the input length
		{"ReadStringBytes/spare=len(input)", func(w []byte) bool { _, _, err := rjson.ReadStringBytes(w, c19Dst[:0:len(w)]); return err == nil }, nil, func(w []byte) bool { return firstByte(w) == '"' }},
		{"ReadStringBytes/prefix+spare=len(input)", func(w []byte) bool { _, _, err := rjson.ReadStringBytes(w, c19Dst[:7:7+len(w)]); return err == nil }, nil, func(w []byte) bool { return firstByte(w) == '"' }},
		{"UnescapeStringContent/spare=len(input)", func(w []byte) bool { _, _, err := rjson.UnescapeStringContent(w, c19Dst[:0:len(w)]); return err == nil }, nil, nil},
		// in place: the destination is the front of the input's own backing array (output never
		// overtakes input); the input is restored from w inside the call (copy does not allocate)
		{"UnescapeStringContent/in-place", func(w []byte) bool {
			a := c19Arena[:len(w)]
			copy(a, w)
			_, _, err := rjson.UnescapeStringContent(a, a[:0])
			return err == nil
		}, nil, nil},
		{"ReadStringBytes/in-place", func(w []byte) bool {
			a := c19Arena[:len(w)]
			copy(a, w)
			_, _, err := rjson.ReadStringBytes(a, a[:0])
			return err == nil
		}, nil, func(w []byte) bool { return firstByte(w) == '"' }},
		// the destination is the free tail of an arena that holds the input in front of it
		{"UnescapeStringContent/arena-tail", func(w []byte) bool {
			a := c19Arena[:len(w)]
			copy(a, w)
			_, _, err := rjson.UnescapeStringContent(a, c19Arena[len(w):len(w)])
			return err == nil
		}, nil, nil},
		{"ReadFloat64", func(w []byte) bool { _, _, err := rjson.ReadFloat64(w); return err == nil }, nil, isNum},
		{"DecodeFloat64", func(w []byte) bool { _, err := rjson.DecodeFloat64(w, &c19F); return err == nil }, nil, nil},
		{"ReadInt64", func(w []byte) bool { _, _, err := rjson.ReadInt64(w); return err == nil }, nil, isNum},
		{"ReadUint64", func(w []byte) bool { _, _, err := rjson.ReadUint64(w); return err == nil }, nil, isNum},
		{"ReadInt32", func(w []byte) bool { _, _, err := rjson.ReadInt32(w); return err == nil }, nil, isNum},
		{"ReadUint32", func(w []byte) bool { _, _, err := rjson.ReadUint32(w); return err == nil }, nil, isNum},
		{"ReadInt", func(w []byte) bool { _, _, err := rjson.ReadInt(w); return err == nil }, nil, isNum},
		{"ReadUint", func(w []byte) bool { _, _, err := rjson.ReadUint(w); return err == nil }, nil, isNum},
		{"DecodeInt64", func(w []byte) bool { _, err := rjson.DecodeInt64(w, &c19I64); return err == nil }, nil, nil},
		{"DecodeInt32", func(w []byte) bool { _, err := rjson.DecodeInt32(w, &c19I32); return err == nil }, nil, nil},
		{"DecodeInt", func(w []byte) bool { _, err := rjson.DecodeInt(w, &c19I); return err == nil }, nil, nil},
		{"DecodeUint64", func(w []byte) bool { _, err := rjson.DecodeUint64(w, &c19U64); return err == nil }, nil, nil},
		{"DecodeUint32", func(w []byte) bool { _, err := rjson.DecodeUint32(w, &c19U32); return err == nil }, nil, nil},
		{"DecodeUint", func(w []byte) bool { _, err := rjson.DecodeUint(w, &c19U); return err == nil }, nil, nil},
		{"ReadBool", func(w []byte) bool { _, _, err := rjson.ReadBool(w); return err == nil }, nil, nil},
		{"DecodeBool", func(w []byte) bool { _, err := rjson.DecodeBool(w, &c19B); return err == nil }, nil, nil},
		{"ReadNull", func(w []byte) bool { _, err := rjson.ReadNull(w); return err == nil }, nil, nil},
		{"NextToken", func(w []byte) bool { _, _, err := rjson.NextToken(w); return err == nil }, nil, nil},
		{"NextTokenType", func(w []byte) bool { _, _, err := rjson.NextTokenType(w); return err == nil }, nil, nil},
	}
}

// mallocsOnce returns the number of heap objects allocated by calling f on every input once.
func mallocsOnce(f allocFamily, inputs [][]byte) uint64 {
	var a, b runtime.MemStats
	runtime.ReadMemStats(&a)
	for _, w := range inputs {
		f.call(w)
	}
	runtime.ReadMemStats(&b)
	return b.Mallocs - a.Mallocs
}

// mallocsMin is the minimum over reps runs (background allocations of the runtime can only add).
func mallocsMin(f allocFamily, inputs [][]byte, reps int) uint64 {
	min := uint64(math.MaxUint64)
	for i := 0; i < reps; i++ {
		if m := mallocsOnce(f, inputs); m < min {
			min = m
		}
		if min == 0 {
			break
		}
	}
	return min
}

// findAllocating bisects a batch that allocates down to single inputs.
func findAllocating(f allocFamily, inputs [][]byte, out *[][]byte) {
	if len(*out) >= 5 {
		return
	}
	if mallocsMin(f, inputs, 5) == 0 {
		return
	}
	if len(inputs) == 1 {
		*out = append(*out, inputs[0])
		return
	}
	mid := len(inputs) / 2
	findAllocating(f, inputs[:mid], out)
	findAllocating(f, inputs[mid:], out)
}

// findAllocatingSeq handles a batch that allocates although no single input of it does when
// repeated on its own (the cost depends on the PREVIOUS call: a memo, a cache): it returns a
// minimal subsequence (delta debugging) that still allocates when it is repeated.
func findAllocatingSeq(f allocFamily, inputs [][]byte) [][]byte {
	allocates := func(seq [][]byte) bool {
		if len(seq) == 0 {
			return false
		}
		// three rounds inside one measurement: the steady state of a cache, not its first fill
		rep := append(append(append([][]byte{}, seq...), seq...), seq...)
		return mallocsMin(f, rep, 5) > 0
	}
	seq := inputs
	if !allocates(seq) {
		return nil
	}
	// ddmin: remove chunks while the rest still allocates
	n := 2
	for len(seq) >= 2 {
		chunk := (len(seq) + n - 1) / n
		reduced := false
		for i := 0; i < len(seq); i += chunk {
			j := i + chunk
			if j > len(seq) {
				j = len(seq)
			}
			rest := append(append([][]byte{}, seq[:i]...), seq[j:]...)
			if allocates(rest) {
				seq = rest
				if n > 2 {
					n--
				}
				reduced = true
				break
			}
		}
		if !reduced {
			if n >= len(seq) {
				break
			}
			n *= 2
			if n > len(seq) {
				n = len(seq)
			}
		}
	}
	if len(seq) > 8 {
		return nil
	}
	return seq
}

func c19(r *eng.Run) {
	r.Level = "exploration"
	runtime.GOMAXPROCS(1)
	// 1. node sets: every input visited by a generic exploration (nesting <= D), by the string
	// and number explorations, plus documents and float literals on every conversion path
	var nodes [][]byte
	seen := map[string]bool{}
	add := func(w []byte) {
		if len(w) == 0 || len(w) > 60000 {
			return
		}
		if !seen[string(w)] {
			seen[string(w)] = true
			nodes = append(nodes, eng.Exact(w))
		}
	}
	D := r.Pick(2, 3)
	sp := e1Spec{
		entry:    "node generation",
		check:    func(w []byte, a *ref.PDA) (string, bool, string, string) { add(w); return "", false, "", "" },
		refKey:   func(w []byte, a *ref.PDA) string { return a.Key() + ref.StrRefine(w) },
		noPump:   true,
		noWindow: true,
		digSat:   3,
	}
	res := runE1(r, sp, D, 1, r.Pick(20000, 120000))
	bfsNodes := len(nodes)
	// documents (E2) in two whitespace styles
	ds := eng.GenDocs(r.Pick(3, 4), leafSmall, keySmall)
	for _, t := range ds.All() {
		add([]byte(t))
		add([]byte(eng.Style(t, 2)))
	}
	// deeper / larger documents and strings
	for _, t := range []string{
		strings.Repeat("[", 500) + strings.Repeat("]", 500),
		strings.Repeat("[", 2000) + strings.Repeat("]", 2000),
		strings.Repeat(`[{"a":`, 4500) + "1" + strings.Repeat("}]", 4500),
		strings.Repeat("[", 10000) + strings.Repeat("]", 10000),
		strings.Repeat(`{"a":`, 300) + `"x"` + strings.Repeat("}", 300),
		"[" + strings.Repeat(`{"k":[1,2.5e3,"s`+"\\"+`n",true,null]},`, 40) + "0]",
		`"` + strings.Repeat("x", 3000) + `"`,
		`"` + strings.Repeat(`\n`+U("00e9")+U("d83d")+U("de00"), 100) + `"`,
		strings.Repeat(" ", 2000) + "1",
	} {
		add([]byte(t))
	}
	// strings: one escape of each kind at every position of plain runs of several lengths
	for _, L := range []int{1, 7, 8, 15, 16, 40, 64} {
		for pos := 0; pos <= L; pos += 1 + L/16 {
			for _, e := range []string{"\\" + "n", U("0041"), U("00e9"), U("d83d") + U("de00"), U("d800"), "\\" + `"`} {
				add([]byte(`"` + strings.Repeat("x", pos) + e + strings.Repeat("y", L-pos) + `"`))
				add([]byte(strings.Repeat("x", pos) + e + strings.Repeat("y", L-pos)))
			}
		}
	}
	// float literals: every conversion path (exact, Eisel-Lemire, multiprecision fallback with
	// short and >800-digit inputs), every table row
	nFloat := 0
	addF := func(s string) { add([]byte(s)); nFloat++ }
	for q := -348; q <= 347; q++ {
		for _, m := range []string{"1", "9007199254740993", "123456789012345678", "18446744073709551615", "1234567890123456789012345"} {
			addF(m + "e" + strconv.Itoa(q))
		}
	}
	for _, z := range []int{1, 5, 18, 19, 20, 31, 32, 33, 64, 100, 400} {
		for _, m := range []string{"1", "0", "1.5", "9007199254740993"} {
			addF(m + "e" + strings.Repeat("0", z) + "5")
			addF(m + "E-" + strings.Repeat("0", z) + "12")
			addF("0e" + strings.Repeat("9", z))
			addF(m + "e-" + strings.Repeat("9", z+3))
		}
	}
	for _, be := range []int{1, 2, 52, 500, 1000, 1023, 1024, 1500, 2000, 2045, 2046} {
		for _, m := range []uint64{0, 1, 1<<52 - 1, 0x5555555555555} {
			bits := uint64(be)<<52 | m
			f := math.Float64frombits(bits)
			next := math.Float64frombits(bits + 1)
			if math.IsInf(next, 0) || f == 0 {
				continue
			}
			h := new(big.Float).SetPrec(2200).Add(new(big.Float).SetPrec(2200).SetFloat64(f), new(big.Float).SetPrec(2200).SetFloat64(next))
			h.Quo(h, big.NewFloat(2))
			hs := trimDec(h.Text('f', 1080))
			for _, v := range halfwayVariants(hs) {
				if len(v) < 4000 {
					addF(v)
				}
			}
		}
	}
	// the shared hard-number and hard-string pools (bare, as array element, as member value)
	for _, x := range hardNumbers() {
		addF(x)
		addF("[" + x + "]")
	}
	for _, x := range hardStrings() {
		add([]byte(x))
		add([]byte(x[1 : len(x)-1]))
		add([]byte(`{"k":` + x + `}`))
	}
	r.Set("node_sets", map[string]int{"exploration_nodes": bfsNodes, "documents_and_large": len(nodes) - bfsNodes - nFloat, "float_literals": nFloat})

	old := debug.SetGCPercent(-1)
	defer debug.SetGCPercent(old)
	measured, successful := 0, 0
	seqReported := map[string]bool{}
	violatedFamily := map[string]bool{}
	perFamily := map[string]int{}
	for _, f := range allocFamilies() {
		// the successful nodes of this family
		var ok [][]byte
		for _, w := range nodes {
			if f.accept != nil && !f.accept(w) {
				continue
			}
			if f.warm != nil {
				f.warm(w)
			}
			if f.call(w) {
				ok = append(ok, w)
			}
		}
		perFamily[f.name] = len(ok)
		successful += len(ok)
		// warm once more on everything (deepest document last is irrelevant: warming keeps the maximum)
		for i := 0; i < len(ok); i += 512 {
			j := i + 512
			if j > len(ok) {
				j = len(ok)
			}
			batch := ok[i:j]
			measured += len(batch)
			if mallocsMin(f, batch, 10) == 0 {
				continue
			}
			var bad [][]byte
			findAllocating(f, batch, &bad)
			if len(bad) == 0 && !seqReported[f.name] && mallocsMin(f, batch, 10) > 0 {
				if win := findAllocatingSeq(f, batch); win != nil {
					seqReported[f.name] = true
					violatedFamily[f.name] = true
					var seq []string
					for _, w := range win {
						seq = append(seq, string(w))
					}
					rep := append(append(append([][]byte{}, win...), win...), win...)
					n := mallocsMin(f, rep, 5)
					r.Violation(eng.Replay{Engine: "alloc", Entry: f.name, Sig: "allocates-in-sequence/" + f.name + "/" + shortSig(win[0]), InputB64: win[0], History: seq, Expected: "0 heap allocations on successful calls, whatever the previous call was", Got: fmt.Sprintf("%d allocations when these %d inputs are processed one after another (three rounds)", n, len(win)),
						Extra: map[string]interface{}{"family": f.name, "sequence": seq}})
				}
			}
			for _, w := range bad {
				n := mallocsMin(f, [][]byte{w}, 5)
				if n == 0 {
					continue
				}
				violatedFamily[f.name] = true
				r.Violation(eng.Replay{Engine: "alloc", Entry: f.name, Sig: "allocates/" + f.name + "/" + shortSig(w), InputB64: w, Expected: "0 heap allocations on a successful call (warmed buffer / spare destination / non-allocating handler)", Got: fmt.Sprintf("%d allocations per call", n),
					Extra: map[string]interface{}{"family": f.name}})
			}
		}
		runtime.GC()
	}
	// Second-call pass: the property's precondition is ONE earlier use of the Buffer on a document
	// at least as deep. A fresh Buffer per input, one unmeasured call, then the measured call.
	{
		type bcall struct {
			name string
			f    func(w []byte, b *rjson.Buffer) bool
		}
		calls := []bcall{
			{"Valid", func(w []byte, b *rjson.Buffer) bool { return rjson.Valid(w, b) }},
			{"SkipValue", func(w []byte, b *rjson.Buffer) bool { _, err := rjson.SkipValue(w, b); return err == nil }},
			{"SkipValueFast", func(w []byte, b *rjson.Buffer) bool { _, err := rjson.SkipValueFast(w, b); return err == nil }},
			{"HandleArrayValues/decline", func(w []byte, b *rjson.Buffer) bool {
				_, err := rjson.HandleArrayValues(w, c19Decline, b)
				return err == nil
			}},
			{"HandleObjectValues/decline", func(w []byte, b *rjson.Buffer) bool {
				_, err := rjson.HandleObjectValues(w, c19DeclineO, b)
				return err == nil
			}},
		}
		var ins [][]byte
		for _, w := range depthSiteFamily(70) {
			ins = append(ins, eng.Exact(w))
		}
		for _, d := range []int{100, 127, 128, 129, 255, 256, 257, 1000, 1024, 4096} {
			ins = append(ins, eng.Exact([]byte(strings.Repeat("[", d)+strings.Repeat("]", d))), eng.Exact([]byte(strings.Repeat(`{"a":`, d)+"1"+strings.Repeat("}", d))))
		}
		for i, w := range nodes[bfsNodes:] {
			if i%7 == 0 && len(w) < 2000 {
				ins = append(ins, w)
			}
		}
		// secondCall returns the mallocs of the measured (second) calls over the inputs
		secondCall := func(c bcall, in [][]byte) uint64 {
			bufs := make([]rjson.Buffer, len(in))
			okv := make([]bool, len(in))
			for i, w := range in {
				okv[i] = c.f(w, &bufs[i])
			}
			var a, b runtime.MemStats
			runtime.ReadMemStats(&a)
			for i, w := range in {
				if okv[i] {
					c.f(w, &bufs[i])
				}
			}
			runtime.ReadMemStats(&b)
			return b.Mallocs - a.Mallocs
		}
		minOf := func(c bcall, in [][]byte, reps int) uint64 {
			min := uint64(math.MaxUint64)
			for i := 0; i < reps && min != 0; i++ {
				if m := secondCall(c, in); m < min {
					min = m
				}
			}
			return min
		}
		n2 := 0
		for _, c := range calls {
			var bisect func(in [][]byte, out *[][]byte)
			bisect = func(in [][]byte, out *[][]byte) {
				if len(*out) >= 3 || minOf(c, in, 5) == 0 {
					return
				}
				if len(in) == 1 {
					*out = append(*out, in[0])
					return
				}
				bisect(in[:len(in)/2], out)
				bisect(in[len(in)/2:], out)
			}
			for i := 0; i < len(ins); i += 256 {
				j := i + 256
				if j > len(ins) {
					j = len(ins)
				}
				n2 += j - i
				var bad [][]byte
				bisect(ins[i:j], &bad)
				for _, w := range bad {
					r.Violation(eng.Replay{Engine: "alloc", Entry: c.name, Sig: "allocates-on-second-call/" + c.name + "/" + shortSig(w), InputB64: w, Expected: "0 heap allocations on a successful call with a Buffer that has been used once before on this very document", Got: fmt.Sprintf("%d allocations on the second call (minimum of 5 trials, fresh Buffer each)", minOf(c, [][]byte{w}, 5)),
						Extra: map[string]interface{}{"family": c.name + "/second-call"}})
				}
			}
		}
		measured += n2
		r.Set("second_call_measurements", n2)
	}
	// After-GC pass: pools (sync.Pool) are emptied by two GC cycles; a successful call that
	// allocates only when a pool is empty still allocates. Measured on the non-exploration nodes
	// (documents, large inputs, float literals): GC twice, one pass over the batch, three times;
	// a batch is suspect only if it allocates in all three, then it is bisected the same way.
	var small [][]byte
	for i, w := range nodes[bfsNodes:] {
		if i%3 == 0 || len(w) > 400 {
			small = append(small, w)
		}
	}
	afterGC := func(f allocFamily, in [][]byte) uint64 {
		min := uint64(math.MaxUint64)
		for i := 0; i < 3; i++ {
			runtime.GC()
			runtime.GC()
			if m := mallocsOnce(f, in); m < min {
				min = m
			}
			if min == 0 {
				break
			}
		}
		return min
	}
	var bisectGC func(f allocFamily, in [][]byte, out *[][]byte)
	gcBudget := 0
	bisectGC = func(f allocFamily, in [][]byte, out *[][]byte) {
		// (a family whose cost depends on the previous call makes every sub-batch allocate: the
		// steady-state pass reports that; here the bisection is cut off after a fixed number of steps)
		if gcBudget <= 0 {
			return
		}
		gcBudget--
		if len(*out) >= 3 || afterGC(f, in) == 0 {
			return
		}
		if len(in) == 1 {
			*out = append(*out, in[0])
			return
		}
		bisectGC(f, in[:len(in)/2], out)
		bisectGC(f, in[len(in)/2:], out)
	}
	gcMeasured := 0
	for _, f := range allocFamilies() {
		if violatedFamily[f.name] {
			continue // already reported by the steady-state pass
		}
		gcBudget = 120
		var ok [][]byte
		for _, w := range small {
			if f.accept != nil && !f.accept(w) {
				continue
			}
			if f.warm != nil {
				f.warm(w)
			}
			if f.call(w) {
				ok = append(ok, w)
			}
		}
		for i := 0; i < len(ok); i += 2048 {
			j := i + 2048
			if j > len(ok) {
				j = len(ok)
			}
			gcMeasured += j - i
			var bad [][]byte
			bisectGC(f, ok[i:j], &bad)
			for _, w := range bad {
				r.Violation(eng.Replay{Engine: "alloc", Entry: f.name, Sig: "allocates-after-gc/" + f.name + "/" + shortSig(w), InputB64: w, Expected: "0 heap allocations on a successful call, also right after garbage collections (empty pools)", Got: fmt.Sprintf("%d allocations in the first call after two GC cycles (3 of 3 trials)", afterGC(f, [][]byte{w})),
					Extra: map[string]interface{}{"family": f.name, "after_gc": true}})
			}
		}
	}
	r.Set("after_gc_measured_calls", gcMeasured)
	e1Evidence(r, D, 1, res)
	r.Set("successful_nodes_by_entry_point", perFamily)
	r.Set("measured_calls", measured)
	r.Set("evaluations", measured)
	r.Set("distinct_nontrivial", len(nodes))
	r.Set("rule", "Node sets: every input visited by a generic E1 exploration (reference-keyed BFS, nesting <= D, all 256 bytes per state), every document with <= N nodes in two whitespace styles, deep/large documents, and float literals for every table row and conversion path (exact, Eisel-Lemire, fallback incl. >800 digits). For each of 29 entry points under the property's preconditions (buffer warmed on the same input, destination with 64 KiB spare, preconstructed non-allocating handlers) every SUCCESSFUL node is measured: runtime.MemStats.Mallocs delta over batches of 512, minimum of 10 repetitions, GC off, GOMAXPROCS=1, uninstrumented build; non-zero batches are bisected and a node is reported only if it allocates in 5 of 5 re-measurements.")
	r.Sample(map[string]interface{}{"kind": "node", "input": "9007199254740993e-27", "entry_points": "ReadFloat64, DecodeFloat64, Valid, SkipValue ..."})
	r.Assume("a statement about the Go runtime's allocator as well as the library: decided by measurement on the enumerated executions")
}
