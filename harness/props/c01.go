package props

import (
	"bytes"
	"encoding/json"
	"fmt"

	"github.com/willabides/rjson"

	"verifharness/eng"
	"verifharness/ref"
)

func init() {
	Registry["C01"] = func(r *eng.Run) { skipFamily(r, "C01") }
	Registry["C02"] = func(r *eng.Run) { skipFamily(r, "C02") }
	Replayers["C01"] = func(rp *eng.Replay) (bool, string) { return replaySkip("C01", rp.InputB64) }
	Replayers["C02"] = func(rp *eng.Replay) (bool, string) { return replaySkip("C02", rp.InputB64) }
}

// checkSkipNode evaluates one input for C01 (Valid) or C02 (SkipValue): implementation with
// nil / fresh / used buffers, reference automaton, encoding/json. Returns a description of the
// disagreement ("" if none), whether it is an oracle fault (reference != stdlib), and what each
// side said.
func checkSkipNode(id string, w []byte, a *ref.PDA, used *rjson.Buffer) (bad string, oracleFault bool, exp, got string) {
	if id == "C01" {
		rv := a.Valid()
		jv := json.Valid(w)
		if rv != jv {
			return "reference!=json.Valid", true, fmt.Sprint(jv), fmt.Sprint(rv)
		}
		bufs := []*rjson.Buffer{nil, {}, used}
		names := []string{"nil", "fresh", "used", "giant"}
		if len(w) > 5000 {
			bufs = append(bufs, giantBuffer())
		}
		for i, b := range bufs {
			if v := rjson.Valid(w, b); v != rv {
				return "Valid/" + names[i], false, fmt.Sprint(rv), fmt.Sprint(v)
			}
		}
		return "", false, "", ""
	}
	rok, rend := a.FirstValue()
	sok, send := stdFirstValue(w)
	if rok != sok || (rok && rend != send) {
		return "reference!=json.Decoder", true, okStr(sok, send), okStr(rok, rend)
	}
	bufs := []*rjson.Buffer{nil, {}, used}
	names := []string{"nil", "fresh", "used", "giant"}
	if len(w) > 5000 {
		bufs = append(bufs, giantBuffer())
	}
	for i, b := range bufs {
		p, err := rjson.SkipValue(w, b)
		if (err == nil) != rok || (rok && p != rend) {
			return "SkipValue/" + names[i], false, okStr(rok, rend), okStr(err == nil, p) + " " + errStr(err)
		}
		if err == nil && (p < 0 || p > len(w)) {
			return "SkipValue/" + names[i] + "/range", false, "0<=p<=len", fmt.Sprint(p)
		}
	}
	return "", false, "", ""
}

func replaySkip(id string, w []byte) (bool, string) {
	a := ref.Run(w)
	var bad, exp, got string
	pan := guard(func() { bad, _, exp, got = checkSkipNode(id, w, a, usedBuffer()) })
	if pan != "" {
		return true, "panic: " + pan
	}
	if bad != "" {
		return true, fmt.Sprintf("%s expected %s got %s", bad, exp, got)
	}
	return false, "agrees with reference and encoding/json"
}

func skipFamily(r *eng.Run, id string) {
	D := r.Pick(2, 3)
	K := r.Pick(1, 2)
	maxStates := r.Pick(200000, 3000000)
	used := usedBuffer()
	entry := "Valid"
	if id == "C02" {
		entry = "SkipValue"
	}
	sp := e1Spec{
		entry: entry,
		probe: func(w []byte) {
			if id == "C01" {
				rjson.Valid(w, nil)
			} else {
				rjson.SkipValue(w, nil)
			}
		},
		check: func(w []byte, a *ref.PDA) (string, bool, string, string) { return checkSkipNode(id, w, a, used) },
		reset: func() { used = usedBuffer() },
	}
	res := runE1(r, sp, D, K, maxStates)
	e1Evidence(r, D, K, res)
	coverageReport(r, "skipValue")

	arenaRefillPass(r, id)
	runFamily(r, "long-runs", entry, longRunFamily(r.Thorough()), sp.check)
	runFamily(r, "string-shapes", entry, stringShapeFamily(), sp.check)
	runFamily(r, "depth-sites", entry, depthSiteFamily(70), sp.check)
	runPairSweep(r, entry, pairCtxAll, sp.check)
	deep := deepFamily(r, id, used)
	r.Set("deep_family_runs", deep)
	r.Add("evaluations", deep)
	r.Set("rule", e1Rule+" Deep family: periodic opener patterns at depth 9998..10002 x follow bytes x completions x {nil, fresh, used, giant pre-grown} buffers.")
	r.Sample(map[string]interface{}{"kind": "pfx-node", "input": `[1,{"a":-0.5e+1`, "note": "every such reachable configuration is followed by each of the 256 byte values"})
	for i, l := range res.st.Loops {
		if i%97 == int(r.Seed%97) && len(r.Samples) < 8 {
			r.Sample(map[string]interface{}{"kind": "pump", "prefix": string(l.W), "byte": fmt.Sprintf("%q", l.B)})
		}
	}
	r.Assume("nesting inside the BFS is bounded by D; deeper stacks are covered only by the periodic deep family")
	r.Assume("digit runs / whitespace runs are saturated in the reference key (3 / 2); longer runs are covered by the pumping pass up to its length bound; class-suffix k guards implicit state in hand-written scanners")
}

// deepFamily pins the depth limit: periodic opener patterns repeated to depth d in
// {9998..10002}, then one more byte from a menu of significant bytes, then a completion.
func deepFamily(r *eng.Run, id string, used *rjson.Buffer) int {
	entry := "Valid"
	if id == "C02" {
		entry = "SkipValue"
	}
	type unit struct {
		open  string
		close string
	}
	units := []unit{{"[", "]"}, {`{"k":`, "}"}, {"[1,", "]"}, {`{"a":1,"k":`, "}"}, {" [ ", " ] "}}
	var patterns [][]unit
	for _, u := range units {
		patterns = append(patterns, []unit{u})
	}
	patterns = append(patterns, []unit{units[0], units[1]}, []unit{units[1], units[0]}, []unit{units[0], units[0], units[1]})
	if r.Thorough() {
		patterns = append(patterns, []unit{units[2], units[3]}, []unit{units[1], units[1], units[0]}, []unit{units[3], units[0], units[2]})
	}
	follow := []byte{'1', '"', '[', '{', ']', '}', 'n', ' ', ',', 'x', 0}
	if r.Thorough() {
		follow = nil
		for b := 0; b < 256; b++ {
			follow = append(follow, byte(b))
		}
	}
	runs := 0
	for _, pat := range patterns {
		for _, d := range []int{9998, 9999, 10000, 10001, 10002} {
			var pre bytes.Buffer
			var closers []string
			for i := 0; i < d; i++ {
				u := pat[i%len(pat)]
				pre.WriteString(u.open)
				closers = append(closers, u.close)
			}
			var suf bytes.Buffer
			for i := len(closers) - 1; i >= 0; i-- {
				suf.WriteString(closers[i])
			}
			base := pre.Bytes()
			a0 := ref.Run(base)
			for _, fb := range follow {
				for _, comp := range []int{0, 1, 2, 3} {
					w := append([]byte(nil), base...)
					w = append(w, fb)
					// the follow byte may open/close a level; completions are tried as-is
					switch comp {
					case 1:
						w = append(w, suf.Bytes()...)
					case 2:
						w = append(w, suf.Bytes()...)
						w = append(w, " \n"...)
					case 3:
						w = append(w, suf.Bytes()...)
						w = append(w, 'x')
					}
					// incremental reference: clone a0 and feed the remainder
					a := clonePDA(a0)
					for _, b := range w[len(base):] {
						a.Step(b)
					}
					runs++
					var bad, exp, got string
					var of bool
					pan := guard(func() { bad, of, exp, got = checkSkipNode(id, w, a, used) })
					sig := fmt.Sprintf("deep/%s/d=%d/follow=%q/comp=%d", patName(pat), d, fb, comp)
					if pan != "" {
						r.Violation(eng.Replay{Engine: "deep", Entry: entry, Sig: "panic/" + sig, InputB64: w, Expected: "returns normally", Got: "panic: " + pan})
						used = usedBuffer()
						continue
					}
					if of {
						r.Note("ORACLE-DISAGREEMENT deep %s: std=%s ref=%s", sig, exp, got)
						r.Inexhaustive("oracle disagreement in deep family")
						continue
					}
					if bad != "" {
						r.Violation(eng.Replay{Engine: "deep", Entry: entry, Sig: bad + "/" + sig, InputB64: w, Expected: exp, Got: got})
					}
				}
			}
		}
		if r.TooMany() {
			break
		}
	}
	r.Sample(map[string]interface{}{"kind": "deep", "pattern": `{"k":[ repeated to depth 10000, then '1', then matching closers`, "expected": "valid at 10000, invalid at 10001"})
	return runs
}

func patName(p interface{}) string { return fmt.Sprintf("%v", p) }

func clonePDA(a *ref.PDA) *ref.PDA {
	c := *a
	c.Ctx = append([]byte(nil), a.Ctx...)
	c.Later = append([]bool(nil), a.Later...)
	return &c
}
