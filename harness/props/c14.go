package props

import (
	"bytes"
	"errors"
	"fmt"
	"strings"

	"github.com/willabides/rjson"

	"verifharness/eng"
)

func init() {
	Registry["C14"] = c14
	Replayers["C14"] = func(rp *eng.Replay) (bool, string) {
		sys := newBufSys(nil, false)
		hist := intsFromExtra(rp.Extra["hist"])
		last := -1
		if v, ok := rp.Extra["op"].(float64); ok {
			last = int(v)
		}
		sys.quiet = true
		sys.Replay(hist, last)
		return sys.lastBad != "", sys.lastBad
	}
}

func intsFromExtra(v interface{}) []int {
	var out []int
	if a, ok := v.([]interface{}); ok {
		for _, x := range a {
			if f, ok := x.(float64); ok {
				out = append(out, int(f))
			}
		}
	}
	return out
}

// bufOp is one operation of the Buffer alphabet: a function taking the shared buffer (nil for
// the reference run) and returning a printable outcome.
type bufOp struct {
	name string
	run  func(buf *rjson.Buffer) string
}

var errStop = errors.New("stop at call 2")

func errClass(err error) string {
	if err == nil {
		return "nil"
	}
	if err == errStop {
		return "errStop(identical)"
	}
	return "err:" + err.Error()
}

// handlerVariant builds an array/object handler pair for a traversal on doc with buffer buf.
// variant: decline | skipnil | skipsame | nested | error2 | outofrange
func traversalOutcome(kind byte, doc []byte, variant string, buf *rjson.Buffer) string {
	var calls []string
	var nestedA func(data []byte) (int, error)
	var nestedO func(key, data []byte) (int, error)
	n := 0
	act := func(key, data []byte) (int, error) {
		n++
		calls = append(calls, fmt.Sprintf("%d:%s", len(doc)-len(data), key))
		switch variant {
		case "decline":
			return 0, nil
		case "skipnil":
			return rjson.SkipValue(data, nil)
		case "skipsame":
			return rjson.SkipValue(data, buf)
		case "skipfastsame":
			return rjson.SkipValueFast(data, buf)
		case "nested":
			if len(data) > 0 && data[0] == '[' {
				return rjson.HandleArrayValues(data, rjson.ArrayValueHandlerFunc(nestedA), buf)
			}
			if len(data) > 0 && data[0] == '{' {
				return rjson.HandleObjectValues(data, rjson.ObjectValueHandlerFunc(nestedO), buf)
			}
			return rjson.SkipValue(data, buf)
		case "error2":
			if n == 2 {
				return 1, errStop
			}
			return 0, nil
		case "outofrange":
			if n == 2 {
				return len(data) + 7, nil
			}
			return 0, nil
		}
		return 0, nil
	}
	nestedA = func(data []byte) (int, error) { return act(nil, data) }
	nestedO = func(key, data []byte) (int, error) { return act(key, data) }
	var p int
	var err error
	if kind == '[' {
		p, err = rjson.HandleArrayValues(doc, rjson.ArrayValueHandlerFunc(nestedA), buf)
	} else {
		p, err = rjson.HandleObjectValues(doc, rjson.ObjectValueHandlerFunc(nestedO), buf)
	}
	cs := strings.Join(calls, " ")
	if len(cs) > 200 {
		cs = fmt.Sprintf("%d calls, first %s", len(calls), cs[:120])
	}
	return fmt.Sprintf("p=%d %s calls[%s]", p, errClass(err), cs)
}

func bufDocs(thorough bool) map[string][]byte {
	deep := func(n int, open, close string) []byte {
		return []byte(strings.Repeat(open, n) + "1" + strings.Repeat(close, n))
	}
	d := map[string][]byte{
		"scalar":     []byte(`1`),
		"empty":      []byte(`[]`),
		"mixed":      []byte(`[[1],{"a":[2]}]`),
		"obj":        []byte(`{"a":{"b":[1]},"c":[[]]}`),
		"eof":        []byte(`[[1,`),
		"trailing":   []byte(`[[[1]]]x`),
		"syntax":     []byte(`[1,}`),
		"objsyntax":  []byte(`{"a":[{"b":]}`),
		"null":       []byte(`null`),
		"depth40":    deep(20, `[{"k":`, `}]`),
		"depth10000": deep(10000, `[`, `]`),
		"depth10001": deep(10001, `[`, `]`),
		"depth12000": deep(12000, `[`, `]`),
		"odepth9000": deep(9000, `{"a":`, `}`),
	}
	if thorough {
		d["odepth10001"] = deep(10001, `{"a":`, `}`)
		d["depth300"] = deep(150, `[[`, `]]`)
	}
	return d
}

type bufSys struct {
	r       *eng.Run
	ops     []bufOp
	expect  []string // outcome with nil buffers
	degrade bool     // canonical key unavailable: key = history
	quiet   bool
	lastBad string
	maxLen  int
	// contents: include the stale stack entries in the canonical key (thorough tier)
	contents bool
}

func newBufSys(r *eng.Run, thorough bool) *bufSys {
	s := &bufSys{r: r}
	docs := bufDocs(thorough)
	var names []string
	for n := range docs {
		names = append(names, n)
	}
	sortStrings(names)
	for _, dn := range names {
		doc := docs[dn]
		s.ops = append(s.ops,
			bufOp{"Valid/" + dn, func(b *rjson.Buffer) string { return fmt.Sprint(rjson.Valid(doc, b)) }},
			bufOp{"SkipValue/" + dn, func(b *rjson.Buffer) string {
				p, err := rjson.SkipValue(doc, b)
				return fmt.Sprintf("p=%d %s", p, errClass(err))
			}},
			bufOp{"SkipValueFast/" + dn, func(b *rjson.Buffer) string {
				p, err := rjson.SkipValueFast(doc, b)
				return fmt.Sprintf("p=%d %s", p, errClass(err))
			}},
		)
		if len(doc) > 20000 {
			// the huge documents go through the traversals with the cheap handler variants only
			for _, hv := range []string{"decline", "skipsame"} {
				hv := hv
				kind := doc[0]
				if kind == '[' || kind == '{' {
					s.ops = append(s.ops, bufOp{fmt.Sprintf("Handle%c/%s/%s", kind, dn, hv), func(b *rjson.Buffer) string { return traversalOutcome(kind, doc, hv, b) }})
				}
			}
			continue
		}
		for _, hv := range []string{"decline", "skipnil", "skipsame", "skipfastsame", "nested", "error2", "outofrange"} {
			hv := hv
			for _, kind := range []byte{'[', '{'} {
				kind := kind
				if len(doc) > 0 && doc[0] != kind && hv != "decline" {
					continue
				}
				s.ops = append(s.ops, bufOp{fmt.Sprintf("Handle%c/%s/%s", kind, dn, hv), func(b *rjson.Buffer) string { return traversalOutcome(kind, doc, hv, b) }})
			}
		}
	}
	for _, op := range s.ops {
		s.expect = append(s.expect, op.run(nil))
	}
	return s
}

func (s *bufSys) NumOps() int { return len(s.ops) }

func (s *bufSys) Replay(hist []int, last int) string {
	buf := &rjson.Buffer{}
	apply := func(i int, check bool) {
		var out string
		pan := guard(func() { out = s.ops[i].run(buf) })
		if pan != "" {
			out = "panic: " + pan
		}
		if check && out != s.expect[i] {
			s.lastBad = fmt.Sprintf("%s after %v: expected %s got %s", s.ops[i].name, s.histNames(hist), s.expect[i], out)
			if !s.quiet && s.r != nil {
				s.r.Violation(eng.Replay{Engine: "hist", Entry: s.ops[i].name, Sig: "buffer-changes-result/" + s.ops[i].name + "/after/" + strings.Join(s.histNames(hist), ","),
					History: append(s.histNames(hist), s.ops[i].name), Expected: s.expect[i] + " (outcome with nil buffers)", Got: out,
					Extra: map[string]interface{}{"hist": hist, "op": i}})
			}
		}
	}
	for _, h := range hist {
		apply(h, false)
	}
	if last >= 0 {
		apply(last, true)
	}
	if l := bufferLen(buf); l > s.maxLen {
		s.maxLen = l
	}
	if !s.degrade {
		if k, ok := bufferKey(buf, s.contents); ok {
			return k
		}
		s.degrade = true
	}
	return fmt.Sprint(hist, last)
}

func (s *bufSys) histNames(hist []int) []string {
	var out []string
	for _, h := range hist {
		out = append(out, s.ops[h].name)
	}
	return out
}

func c14(r *eng.Run) {
	sys := newBufSys(r, r.Thorough())
	st := eng.HistBFS(r, sys, 3000, 8)
	r.Assume("pass 1 (to closure): stale stack entries are not part of the canonical Buffer state (they are written before they are read); pass 2 keys on them too and is bounded by a state cap")
	// pass 2: the same search with the stale stack entries in the key (finer states), capped
	sys2 := newBufSys(r, r.Thorough())
	sys2.contents = true
	st2 := eng.HistBFS(r, sys2, r.Pick(120, 2500), r.Pick(3, 4))
	r.Set("pass2_states_with_stack_contents", st2.States)
	r.Set("pass2_transitions", st2.Transitions)
	r.Set("pass2_max_depth", st2.MaxDepth)
	r.Set("pass2_closed", st2.Closed)
	st.Transitions += st2.Transitions
	// pumped histories: one cheap op (successful, failing, aborted by the handler, re-entrant)
	// repeated far beyond any depth bound, then a probe set — counters leaked per call only show
	// after thousands of calls
	var cheapOps, probes []int
	for i, op := range sys.ops {
		if !strings.Contains(op.name, "depth1") && !strings.Contains(op.name, "odepth") && !strings.Contains(op.name, "depth40") {
			cheapOps = append(cheapOps, i)
		}
		for _, pn := range []string{"Valid/mixed", "SkipValue/obj", "SkipValueFast/mixed", "Handle[/mixed/nested", "Handle{/obj/skipsame", "Handle[/mixed/decline", "SkipValue/depth10000", "SkipValueFast/depth10000", "Handle[/depth10001/decline", "Valid/depth10001"} {
			if op.name == pn {
				probes = append(probes, i)
			}
		}
	}
	pumped := 0
	for _, a := range cheapOps {
		K := r.Pick(10050, 20100)
		hist := make([]int, K)
		for i := range hist {
			hist[i] = a
		}
		for _, b := range probes {
			sys.Replay(hist, b)
			pumped++
		}
		if r.TooMany() {
			break
		}
	}
	arenaRefillPass(r, "C14")
	r.Set("pumped_histories", pumped)
	r.Set("pumped_history_length", r.Pick(10050, 20100))
	st.Transitions += pumped
	r.Set("states", st.States)
	r.Set("transitions", st.Transitions)
	r.Set("traces_validated_against_impl", st.Transitions)
	r.Set("evaluations", st.Transitions)
	r.Set("distinct_nontrivial", st.States)
	r.Set("op_alphabet", len(sys.ops))
	r.Set("max_history_depth", st.MaxDepth)
	r.Set("closure_reached", st.Closed)
	r.Set("max_stack_len_seen", sys.maxLen)
	r.Set("canonical_key_by_reflection", !sys.degrade)
	if !st.Closed {
		r.Inexhaustive(fmt.Sprintf("canonical Buffer state space not closed within %d states / depth %d: all histories up to the completed depth are covered", st.States, st.MaxDepth))
	}
	var sample []string
	for i := 0; i < len(sys.ops) && i < 400; i += 37 {
		sample = append(sample, sys.ops[i].name)
	}
	r.Sample(map[string]interface{}{"kind": "history", "ops": []string{"Handle[/depth12000/decline", "Valid/depth10001", "Handle{/obj/nested"}, "note": "every op after every reachable canonical Buffer state; outcome compared with the same op with nil buffers"})
	r.Sample(map[string]interface{}{"kind": "alphabet-excerpt", "ops": sample})
	r.Set("rule", "E3: BFS over call histories on one Buffer; alphabet = {Valid, SkipValue, SkipValueFast, HandleArrayValues, HandleObjectValues} x documents (scalars, nested, EOF / syntax errors, trailing garbage, depth 40, depth 9000..12000 incl. the depth-limit exit) x handler variants (decline, skip with nil buffer, skip / fast-skip re-entering with the SAME buffer, nested traversal re-entering with the same buffer recursively, error at call 2, out-of-range offset); dedup key = canonical stack slice (len, spare, contents) read by reflection; every transition's outcome (offset, error class, handler call list) must equal the outcome with nil buffers. states = canonical Buffer states.")
	_ = bytes.Equal
}
