package props

import (
	"fmt"
	"strings"

	"github.com/willabides/rjson"
	"verifharness/eng"
	"verifharness/ref"
)

// arenaVariants: same-length documents that differ only in interior bytes (first and last 8
// bytes equal), some valid and some not, plus same-length documents that differ everywhere.
func arenaVariants() [][]byte {
	base := []byte(`[[1,2,3],{"a":[4,5,6]},"abcdefgh",[7,8,9],12345]`)
	out := [][]byte{append([]byte{}, base...)}
	for pos := 8; pos < len(base)-8; pos++ {
		for _, c := range []byte{',', ']', 'x', '1', '"', ' '} {
			if base[pos] == c {
				continue
			}
			v := append([]byte{}, base...)
			v[pos] = c
			out = append(out, v)
		}
	}
	pad := func(s string) []byte {
		b := []byte(s)
		for len(b) < len(base) {
			b = append(b, ' ')
		}
		return b
	}
	out = append(out, pad(`{"k":[1,2,{"x":null}],"l":"str"}`), pad(`"just a string"`), pad(`12`), pad(`[1,2`), pad(`[[[[[[[[[[[[[[[[[[[[1]]]]]]]]]]]]]]]]]]]]`), pad(`tru`), pad(`1 2`))
	return out
}

type arenaOp struct {
	name string
	run  func(d []byte, b *rjson.Buffer) string
}

func arenaOps() []arenaOp {
	return []arenaOp{
		{"Valid", func(d []byte, b *rjson.Buffer) string { return fmt.Sprint(rjson.Valid(d, b)) }},
		{"SkipValue", func(d []byte, b *rjson.Buffer) string {
			p, err := rjson.SkipValue(d, b)
			return fmt.Sprintf("p=%d %s", p, errClass(err))
		}},
		{"SkipValueFast", func(d []byte, b *rjson.Buffer) string {
			p, err := rjson.SkipValueFast(d, b)
			return fmt.Sprintf("p=%d %s", p, errClass(err))
		}},
		{"HandleArrayValues/skipsame", func(d []byte, b *rjson.Buffer) string { return traversalOutcome('[', d, "skipsame", b) }},
		{"HandleObjectValues/decline", func(d []byte, b *rjson.Buffer) string { return traversalOutcome('{', d, "decline", b) }},
	}
}

func init() {
	f := func(rp *eng.Replay) (bool, string) {
		first, _ := rp.Extra["arena_first"].(string)
		second, _ := rp.Extra["arena_second"].(string)
		n1, _ := rp.Extra["op1"].(string)
		n2, _ := rp.Extra["op2"].(string)
		same, _ := rp.Extra["same_buffer"].(bool)
		var o1, o2 *arenaOp
		for _, o := range arenaOps() {
			o := o
			if o.name == n1 {
				o1 = &o
			}
			if o.name == n2 {
				o2 = &o
			}
		}
		if o1 == nil || o2 == nil || len(first) != len(second) {
			return false, "replay file incomplete"
		}
		want := o2.run(eng.Exact([]byte(second)), nil)
		var buf *rjson.Buffer
		if same {
			buf = &rjson.Buffer{}
		}
		arena := []byte(first)
		o1.run(arena, buf)
		copy(arena, second)
		got := o2.run(arena, buf)
		return got != want, fmt.Sprintf("private copy with nil buffers: %s; refilled arena: %s", want, got)
	}
	Replayers["C01/arena"] = f
	Replayers["C02/arena"] = f
	Replayers["C14/arena"] = f
	Replayers["C11/arena"] = f
}

// arenaRefillPass: one backing array refilled in place with same-length documents; every ordered
// pair of contents x every pair of entry points through one Buffer. The second call's outcome must
// be the reference verdict for the CURRENT content (C02) and equal the nil-buffer outcome on a
// private copy (C14) - results must depend on the bytes, never on where they live.
func arenaRefillPass(r *eng.Run, id string) {
	vars := arenaVariants()
	ops := arenaOps()
	// expected outcomes on private copies with nil buffers, computed before the arena exists
	expect := make([][]string, len(vars))
	for i, v := range vars {
		expect[i] = make([]string, len(ops))
		for j, o := range ops {
			expect[i][j] = o.run(eng.Exact(v), nil)
		}
		// reference verdicts for the first three
		a := ref.Run(v)
		if want := fmt.Sprint(a.Valid()); expect[i][0] != want && id == "C01" {
			r.Violation(eng.Replay{Engine: "pfx", Entry: "Valid", Sig: "arena-private-copy/" + shortSig(v), InputB64: v, Expected: want, Got: expect[i][0]})
		}
		ok, end := a.FirstValue()
		if ok {
			if want := fmt.Sprintf("p=%d nil", end); expect[i][1] != want && id == "C02" {
				r.Violation(eng.Replay{Engine: "pfx", Entry: "SkipValue", Sig: "arena-private-copy/" + shortSig(v), InputB64: v, Expected: want, Got: expect[i][1]})
			}
		}
	}
	arena := make([]byte, len(vars[0]))
	n := 0
	for i := range vars {
		for j := range vars {
			if i == j {
				continue
			}
			for oa := range ops {
				for ob := range ops {
					if id == "C02" && (oa > 1 || ob > 1) {
						continue
					}
					if id == "C01" && (oa > 1 || ob != 0) {
						continue
					}
					if id == "C11" && (oa < 1 || oa > 2 || ob != 2) {
						continue
					}
					for _, sameBuf := range []bool{true, false} {
						if !sameBuf && id == "C14" {
							continue
						}
						var buf *rjson.Buffer
						if sameBuf {
							buf = &rjson.Buffer{}
						}
						copy(arena, vars[i])
						ops[oa].run(arena, buf)
						copy(arena, vars[j])
						var got string
						pan := guard(func() { got = ops[ob].run(arena, buf) })
						if pan != "" {
							got = "panic: " + pan
						}
						n++
						if id == "C11" {
							// only well-formed values are constrained: SkipValueFast must then agree with SkipValue
							if !strings.HasSuffix(expect[j][1], " nil") || got == expect[j][1] {
								continue
							}
							r.Violation(eng.Replay{Engine: "arena", Entry: ops[ob].name, Sig: fmt.Sprintf("arena-refill/%s-then-%s/buffer=%v", ops[oa].name, ops[ob].name, sameBuf),
								History:  []string{ops[oa].name + " on arena holding " + string(vars[i]), "refill arena in place", ops[ob].name + " on arena holding " + string(vars[j])},
								InputB64: vars[j], Expected: expect[j][1] + " (SkipValue on a private copy)", Got: got,
								Extra: map[string]interface{}{"arena_first": string(vars[i]), "arena_second": string(vars[j]), "op1": ops[oa].name, "op2": ops[ob].name, "same_buffer": sameBuf}})
							continue
						}
						if got != expect[j][ob] {
							r.Violation(eng.Replay{Engine: "arena", Entry: ops[ob].name, Sig: fmt.Sprintf("arena-refill/%s-then-%s/buffer=%v", ops[oa].name, ops[ob].name, sameBuf),
								History:  []string{ops[oa].name + " on arena holding " + string(vars[i]), "refill arena in place", ops[ob].name + " on arena holding " + string(vars[j])},
								InputB64: vars[j], Expected: expect[j][ob] + " (outcome on a private copy with nil buffers)", Got: got,
								Extra: map[string]interface{}{"arena_first": string(vars[i]), "arena_second": string(vars[j]), "op1": ops[oa].name, "op2": ops[ob].name, "same_buffer": sameBuf}})
						}
					}
				}
			}
		}
		if i%16 == 0 {
			eng.Beat(vars[i])
		}
	}
	r.Add("evaluations", n)
	r.Set("arena_refill_variants", len(vars))
	r.Set("arena_refill_histories", n)
}
