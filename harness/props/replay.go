package props

import (
	"github.com/willabides/rjson"

	"encoding/json"
	"fmt"
	"os"

	"verifharness/eng"
)

// Replayers re-execute one recorded case through a plain function (no explorer). They return
// true if the case still violates the property.
var Replayers = map[string]func(rp *eng.Replay) (violates bool, detail string){}

// ReplayFile re-executes a replay file; exit code 1 iff it still violates.
func ReplayFile(path string) int {
	b, err := os.ReadFile(path)
	if err != nil {
		fmt.Println("replay:", err)
		return 2
	}
	var rp eng.Replay
	if err := json.Unmarshal(b, &rp); err != nil {
		fmt.Println("replay:", err)
		return 2
	}
	if rp.Engine == "crash" {
		pan := crashSweep(rp.InputB64)
		fmt.Printf("replay %s (library panic) input=%s\n  now: %s\n", rp.Property, rp.InputQ, pan)
		if pan != "" {
			fmt.Printf("VIOLATION property=%s replay=%s\n", rp.Property, path)
			return 1
		}
		fmt.Println("replay: no entry point panics on this input with fresh buffers on the current tree (the recorded stack names the call)")
		return 0
	}
	f := Replayers[rp.Property+"/"+rp.Engine]
	if f == nil {
		f = Replayers[rp.Property]
	}
	if f == nil {
		fmt.Printf("replay: no replayer for %s/%s\n", rp.Property, rp.Engine)
		return 2
	}
	v, detail := f(&rp)
	fmt.Printf("replay %s entry=%s input=%s choices=%v\n  recorded expected: %s\n  recorded got:      %s\n  now: %s\n", rp.Property, rp.Entry, rp.InputQ, rp.Choices, rp.Expected, rp.Got, detail)
	if v {
		fmt.Printf("VIOLATION property=%s replay=%s\n", rp.Property, path)
		return 1
	}
	fmt.Println("replay: does not violate on the current tree")
	return 0
}

// crashSweep runs the entry points on w with fresh buffers and returns the first panic ("" if none).
func crashSweep(w []byte) string {
	declA := rjson.ArrayValueHandlerFunc(func([]byte) (int, error) { return 0, nil })
	declO := rjson.ObjectValueHandlerFunc(func(_, _ []byte) (int, error) { return 0, nil })
	calls := map[string]func(){
		"Valid":                           func() { rjson.Valid(w, nil) },
		"SkipValue":                       func() { rjson.SkipValue(w, nil) },
		"SkipValueFast":                   func() { rjson.SkipValueFast(w, nil) },
		"HandleArrayValues":               func() { rjson.HandleArrayValues(w, declA, nil) },
		"HandleObjectValues":              func() { rjson.HandleObjectValues(w, declO, nil) },
		"HandleArrayValues(ValueReader)":  func() { rjson.HandleArrayValues(w, &rjson.ValueReader{}, nil) },
		"HandleObjectValues(ValueReader)": func() { rjson.HandleObjectValues(w, &rjson.ValueReader{}, nil) },
		"ReadValue":                       func() { rjson.ReadValue(w) },
		"ReadArray":                       func() { rjson.ReadArray(w) },
		"ReadObject":                      func() { rjson.ReadObject(w) },
		"ReadString":                      func() { rjson.ReadString(w, nil) },
		"ReadStringBytes":                 func() { rjson.ReadStringBytes(w, nil) },
		"ReadFloat64":                     func() { rjson.ReadFloat64(w) },
		"ReadInt64":                       func() { rjson.ReadInt64(w) },
		"ReadUint64":                      func() { rjson.ReadUint64(w) },
		"NextToken":                       func() { rjson.NextToken(w) },
	}
	var names []string
	for n := range calls {
		names = append(names, n)
	}
	sortStrings(names)
	for _, n := range names {
		if pan := guard(calls[n]); pan != "" {
			return n + ": panic: " + pan
		}
	}
	return ""
}
