package props

import (
	"encoding/json"
	"fmt"
	"os"

	"verifharness/eng"
)

// Replayers re-execute one recorded case through a plain function (no explorer). They return
// true if the case still violates the property.
var Replayers = map[string]func(rp *eng.Replay) (violates bool, detail string){}

// ReplayFile re-executes a replay file; exit code 1 iff it still violates.
func ReplayFile(path string) int {
	b, err := os.ReadFile(path)
	if err != nil {
		fmt.Println("replay:", err)
		return 2
	}
	var rp eng.Replay
	if err := json.Unmarshal(b, &rp); err != nil {
		fmt.Println("replay:", err)
		return 2
	}
	f := Replayers[rp.Property+"/"+rp.Engine]
	if f == nil {
		f = Replayers[rp.Property]
	}
	if f == nil {
		fmt.Printf("replay: no replayer for %s/%s\n", rp.Property, rp.Engine)
		return 2
	}
	v, detail := f(&rp)
	fmt.Printf("replay %s entry=%s input=%s choices=%v\n  recorded expected: %s\n  recorded got:      %s\n  now: %s\n", rp.Property, rp.Entry, rp.InputQ, rp.Choices, rp.Expected, rp.Got, detail)
	if v {
		fmt.Printf("VIOLATION property=%s replay=%s\n", rp.Property, path)
		return 1
	}
	fmt.Println("replay: does not violate on the current tree")
	return 0
}
