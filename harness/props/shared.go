package props

import (
	"math"
	"math/big"
	"strconv"
	"strings"
	"sync"
)

// Shared hard-input pools. A property about "every API that decodes numbers / strings" is only
// decided on its own paths if those paths see the inputs that are hard for the underlying
// converter; these pools are finite, stated sets that several checks run completely through their
// own oracle (C03 through the generic readers, C08 through the decoding styles, C10 through every
// exported function, C12 through the Decode forms).

var hardNumOnce sync.Once
var hardNumList []string

// hardNumbers: (a) for a spread of binades (both ends of the subnormal / normal / overflow
// ranges, and every 64th in between) x mantissas {0, 1, all-ones}: shortest text, the exact
// halfway point to the successor, slightly above it, and its truncations to 17 / 19 / 20 digits;
// (b) every row of the powers-of-ten table (-348..348 and 12 beyond on each side) x three
// mantissas of 1, 16 and 20 digits; (c) plain digit runs of every length 1..40 (x three digits,
// bare / negative / with a fraction / with an exponent); (d) zeros and range-limit literals.
func hardNumbers() []string {
	hardNumOnce.Do(func() {
		add := func(s ...string) { hardNumList = append(hardNumList, s...) }
		var bes []int
		for be := 0; be <= 2046; be++ {
			if be <= 3 || be >= 2044 || be%64 == 0 || (be >= 1021 && be <= 1026) || (be >= 1074 && be <= 1078) || be == 52 || be == 53 || be == 54 {
				bes = append(bes, be)
			}
		}
		for _, be := range bes {
			for _, m := range []uint64{0, 1, 1<<52 - 1} {
				bits := uint64(be)<<52 | m
				f := math.Float64frombits(bits)
				if f == 0 {
					continue
				}
				add(strconv.FormatFloat(f, 'g', -1, 64))
				next := math.Float64frombits(bits + 1)
				bf := new(big.Float).SetPrec(2200).SetFloat64(f)
				var bn *big.Float
				if math.IsInf(next, 0) {
					bn = new(big.Float).SetPrec(2200).SetMantExp(big.NewFloat(1), 1024)
				} else {
					bn = new(big.Float).SetPrec(2200).SetFloat64(next)
				}
				h := new(big.Float).SetPrec(2200).Add(bf, bn)
				h.Quo(h, big.NewFloat(2))
				// scientific form with all significant digits (the plain expansion of a subnormal has
				// ~1075 digits; the converter sees the same value either way)
				hs := h.Text('e', 800)
				mant, exp := hs, ""
				if i := strings.IndexByte(hs, 'e'); i >= 0 {
					mant, exp = hs[:i], hs[i:]
				}
				mant = strings.TrimRight(mant, "0")
				exp = strings.Replace(exp, "e+", "e", 1)
				add(mant+exp, mant+"1"+exp)
				for _, n := range []int{17, 19, 20} {
					if len(mant) > n+1 {
						add(mant[:n+1] + exp)
					}
				}
			}
		}
		for q := -360; q <= 360; q++ {
			e := "e" + strconv.Itoa(q)
			add("1"+e, "9007199254740993"+e, "-12345678901234567890"+e)
		}
		for L := 1; L <= 40; L++ {
			for _, d := range []string{"1", "7", "9"} {
				run := strings.Repeat(d, L)
				add(run, "-"+run, run+".5", run+"e2", "0."+run)
			}
		}
		add("0", "-0", "0.0", "-0.0e5", "0e999", "-0e-999", "1e308", "1e309", "-1e309", "1.7976931348623157e308", "1.7976931348623158e308", "1.797693134862315807e308", "1.797693134862315808e308",
			"2.2250738585072011e-308", "2.2250738585072012e-308", "2.2250738585072014e-308", "22250738585072012e-324", "0.22250738585072012e-307", "4.9406564584124654e-324", "2.4703282292062327e-324", "2.4703282292062328e-324", "2.4703282292062329e-324",
			"9007199254740993", "9007199254740993.0000000000000000000001", "4503599627370497.5", "123456789012345678e-27", "-9.8233876e44", "1e23", "8.5e22", "1e22", "1e-22", "1e-23")
	})
	return hardNumList
}

// hardStrings: string tokens whose shapes are hard for the unescaper: an escaped quote early (the
// size estimate stops there), then plain runs of 0..9 / 60..70 bytes, then each kind of escape
// (simple, BMP \u, surrogate pair, lone surrogates) and plain tails.
func hardStrings() []string {
	bs := "\\"
	escs := []string{bs + "n", bs + "u00e9", bs + "u20ac", bs + "ud83d" + bs + "ude00", bs + "ud800", bs + "udc00", bs + "ud800x", bs + `"`, bs + bs, bs + "/", bs + "u0041",
		// a high surrogate followed by a malformed / truncated / non-low second escape (the look-ahead
		// that pairs surrogates reads bytes no state machine has validated yet)
		bs + "ud83d" + bs + "ude0g", bs + "ud83d" + bs + "udeZZ", bs + "ud83d" + bs + "ude", bs + "ud83d" + bs + "u", bs + "ud83d" + bs, bs + "ud83d" + bs + "ud83d", bs + "ud83d" + bs + "uDE0G", bs + "ud83d" + bs + "u00e9", bs + "uD83D" + bs + "uDE00", bs + "udbff" + bs + "udfff", bs + "ud800" + bs + "udc00"}
	var out []string
	for _, pre := range []string{"", bs + `"`, "ab" + bs + `"`} {
		for _, run := range []int{0, 1, 2, 3, 4, 5, 6, 7, 8, 9, 15, 16, 17, 31, 32, 33, 63, 64, 65} {
			for _, e := range escs {
				for _, tail := range []string{"", "z", e} {
					out = append(out, `"`+pre+strings.Repeat("p", run)+e+tail+`"`)
				}
			}
		}
	}
	return out
}

// relatedNameDocs: member names of neighbouring objects that are related through escaping (the raw
// text of one equals the decoded form of another, escaped and plain spellings of one name,
// prefixes), every ordered pair in five arrangements.
func relatedNameDocs() []string {
	bs := "\\"
	names := []string{`"a"`, `"` + U("0061") + `"`, `"a` + bs + `tb"`, `"a` + bs + bs + `tb"`, `"a` + bs + bs + bs + bs + `tb"`, `"a` + bs + `u0009b"`, `"a` + bs + bs + `u0009b"`, `"ab"`, `""`, `"` + bs + `""`, `"` + bs + bs + `"`}
	var out []string
	for _, k1 := range names {
		for _, k2 := range names {
			for _, shape := range []string{`[{K1:1},{K2:2}]`, `[[{K1:1}],[{K2:2}]]`, `{"p":{K1:1},"q":{K2:2}}`, `[{K1:1,K2:2},{K2:3,K1:4}]`, `{K1:{K2:1},K2:{K1:2}}`} {
				out = append(out, strings.ReplaceAll(strings.ReplaceAll(shape, "K1", k1), "K2", k2))
			}
		}
	}
	return out
}

// shortStringPairDocs: pairs of short string values that collide under careless keys (differ only
// in trailing / leading U+0000, one a prefix of the other, same bytes in escaped and plain
// spelling, same length), as siblings, cousins and member values.
func shortStringPairDocs() []string {
	bs := "\\"
	nul := bs + "u0000"
	vals := []string{`""`, `"` + nul + `"`, `"a"`, `"a` + nul + `"`, `"a` + nul + nul + `"`, `"` + nul + `a"`, `"ab"`, `"a` + bs + `u0001"`, `"` + U("0061") + `"`, `"abcdefgh"`, `"abcdefgh` + nul + `"`, `"abcdefg"`, `"b"`}
	var out []string
	for _, x := range vals {
		for _, y := range vals {
			if x == y {
				continue
			}
			out = append(out, "["+x+","+y+"]", "[["+x+"],["+y+"]]", `{"k":`+x+`,"l":`+y+`}`, `[{"k":`+x+`},{"k":`+y+`}]`)
		}
	}
	return out
}
