package props

import (
	"fmt"
	"math/big"
	"strings"
	"sync"
	"sync/atomic"

	"verifharness/eng"
)

// c05Values is the E5 part of C05: complete finite windows of integer literals.
func c05Values(r *eng.Run) {
	W := int64(r.Pick(2000, 200000))
	var evals, distinct int64
	var mu sync.Mutex
	selfFaults := 0
	one := func(tok []byte) {
		atomic.AddInt64(&evals, 1)
		var bad, exp, got string
		pan := guard(func() { bad, _, exp, got = checkInts(tok, nil) })
		if pan != "" {
			r.Violation(eng.Replay{Engine: "num", Entry: "Read*Int*", Sig: "panic/" + shortSig(tok), InputB64: append([]byte(nil), tok...), Expected: "returns normally", Got: "panic: " + pan})
			return
		}
		if bad != "" {
			r.Violation(eng.Replay{Engine: "num", Entry: "Read*Int*", Sig: bad + "/" + shortSig(tok), InputB64: append([]byte(nil), tok...), Expected: exp, Got: got})
		}
	}
	lit := func(v *big.Int) {
		atomic.AddInt64(&distinct, 1)
		s := v.String()
		if d := intOracleSelfCheck(s); d != "" {
			mu.Lock()
			selfFaults++
			if selfFaults < 4 {
				r.Note("ORACLE-DISAGREEMENT math/big reference vs strconv: %s", d)
			}
			mu.Unlock()
			return
		}
		one([]byte(s))
	}
	centres := []*big.Int{}
	for _, s := range []string{"2147483647", "2147483648", "4294967295", "4294967296", "9223372036854775807", "9223372036854775808",
		"18446744073709551615", "18446744073709551616", "100000000000000000", "1000000000000000000", "10000000000000000000", "100000000000000000000",
		"999999999999999999", "1844674407370955161", "1844674407370955162", "922337203685477580", "922337203685477581"} {
		centres = append(centres, bi(s))
	}
	// complete windows, both signs
	for _, c := range centres {
		c := c
		eng.Parallel(int(2*W+1), func(i int) {
			v := new(big.Int).Add(c, big.NewInt(int64(i)-W))
			lit(v)
			lit(new(big.Int).Neg(v))
		})
		// centre +-2 followed by every byte, with whitespace prefix variants
		for d := int64(-2); d <= 2; d++ {
			v := new(big.Int).Add(c, big.NewInt(d))
			for _, neg := range []bool{false, true} {
				s := v.String()
				if neg {
					s = "-" + s
				}
				for b := 0; b < 256; b++ {
					one(append([]byte(s), byte(b)))
					one(append([]byte(" \t"+s), byte(b)))
				}
			}
		}
		if r.TooMany() {
			break
		}
	}
	// whitespace prefixes of many lengths in front of the boundary values (scanner bookkeeping
	// relative to the start of the digits, not of the input)
	for _, c := range centres {
		for d := int64(-1); d <= 1; d++ {
			v := new(big.Int).Add(c, big.NewInt(d))
			for _, wl := range []int{1, 2, 7, 8, 9, 16, 17, 18, 19, 20, 21, 33, 64} {
				for _, ws := range []string{" ", "\n", "\t\r"} {
					pre := strings.Repeat(ws, wl)
					one([]byte(pre + v.String()))
					one([]byte(pre + "-" + v.String() + " "))
				}
			}
		}
	}
	// the boundary values followed by tails of many lengths (fast paths that need a minimum number
	// of remaining bytes) and in front of other members
	for _, c := range centres {
		for d := int64(-1); d <= 1; d++ {
			v := new(big.Int).Add(c, big.NewInt(d))
			for _, tl := range []int{1, 2, 7, 8, 11, 12, 13, 15, 16, 17, 24, 31, 32, 33, 48, 64, 100, 300} {
				for _, unit := range []string{" ", ",1", "]"} {
					tail := strings.Repeat(unit, tl)[:tl]
					if unit == "]" {
						tail = "," + strings.Repeat("9", tl)
					}
					one([]byte(v.String() + tail))
					one([]byte("-" + v.String() + tail))
					one([]byte("  -" + v.String() + tail))
				}
			}
		}
	}
	// all |v| < 10^5
	eng.Parallel(100000, func(i int) {
		v := big.NewInt(int64(i))
		lit(v)
		lit(new(big.Int).Neg(v))
	})
	// 19/20-digit strings: 18-digit boundary prefixes x all 100 two-digit endings (and one-digit)
	for _, pre := range []string{"184467440737095516", "184467440737095515", "184467440737095517", "922337203685477580", "922337203685477579", "922337203685477581",
		"999999999999999999", "100000000000000000", "123456789012345678", "429496729500000000", "214748364700000000"} {
		for e := 0; e < 100; e++ {
			for _, f := range []string{"%s%02d", "-%s%02d"} {
				tok := fmt.Sprintf(f, pre, e)
				atomic.AddInt64(&distinct, 1)
				if d := intOracleSelfCheck(tok); d != "" {
					selfFaults++
					continue
				}
				one([]byte(tok))
			}
			if e < 10 {
				tok := fmt.Sprintf("%s%d", pre, e)
				atomic.AddInt64(&distinct, 1)
				one([]byte(tok))
				one([]byte("-" + tok))
			}
		}
	}
	// leading zeros, signs and odd forms
	for _, s := range []string{"0", "-0", "00", "-00", "01", "-01", "+1", "+0", "-", "--1", "-+1", "0x10", "1_0", " 1", "\n-1", "1 ", "- 1", "-\t1", "-\n1", "-\r1", "-\r\n 1", "1.0", "1e0", "1E0", "1.", "0.", "0e", "0.0", "-0.0", "1e", ".1", "e1", "١"} {
		one([]byte(s))
	}
	r.Add("evaluations", int(evals))
	r.Add("distinct_nontrivial", int(distinct))
	r.Set("e5_integer_literals", int(distinct))
	r.Set("e5_window_halfwidth", int(W))
	r.Set("e5_window_centres", len(centres))
	if selfFaults > 0 {
		r.Inexhaustive(fmt.Sprintf("math/big reference disagrees with strconv on %d literals (oracle fault)", selfFaults))
	}
	r.Sample(map[string]interface{}{"kind": "window", "centre": "9223372036854775808", "halfwidth": W, "signs": "both", "then": "centre±2 followed by every byte value"})
}
