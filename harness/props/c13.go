package props

import (
	"bytes"
	"fmt"
	"io"

	"github.com/willabides/rjson"

	"verifharness/eng"
	"verifharness/ref"
)

func init() {
	Registry["C13"] = c13
	Replayers["C13"] = func(rp *eng.Replay) (bool, string) {
		bad, _, exp, got := checkTokens(rp.InputB64, ref.Run(rp.InputB64))
		return bad != "", fmt.Sprintf("%s expected %s got %s", bad, exp, got)
	}
}

var tokKinds = map[int]rjson.TokenType{
	ref.TInvalid: rjson.InvalidType, ref.TNull: rjson.NullType, ref.TString: rjson.StringType, ref.TNumber: rjson.NumberType,
	ref.TTrue: rjson.TrueType, ref.TFalse: rjson.FalseType, ref.TObjectStart: rjson.ObjectStartType, ref.TObjectEnd: rjson.ObjectEndType,
	ref.TArrayStart: rjson.ArrayStartType, ref.TArrayEnd: rjson.ArrayEndType, ref.TComma: rjson.CommaType, ref.TColon: rjson.ColonType,
}

// readFamilies runs every typed Read function on w and returns which families succeeded.
func readFamilies(w []byte) map[string]bool {
	out := map[string]bool{}
	if _, err := rjson.ReadNull(w); err == nil {
		out["null"] = true
	}
	if _, _, err := rjson.ReadBool(w); err == nil {
		out["bool"] = true
	}
	if _, _, err := rjson.ReadString(w, nil); err == nil {
		out["string"] = true
	}
	if _, _, err := rjson.ReadStringBytes(w, nil); err == nil {
		out["string"] = true
	}
	if _, _, err := rjson.ReadFloat64(w); err == nil {
		out["number"] = true
	}
	if _, _, err := rjson.ReadInt64(w); err == nil {
		out["number"] = true
	}
	if _, _, err := rjson.ReadUint64(w); err == nil {
		out["number"] = true
	}
	if _, _, err := rjson.ReadInt32(w); err == nil {
		out["number"] = true
	}
	if _, _, err := rjson.ReadUint32(w); err == nil {
		out["number"] = true
	}
	if _, _, err := rjson.ReadInt(w); err == nil {
		out["number"] = true
	}
	if _, _, err := rjson.ReadUint(w); err == nil {
		out["number"] = true
	}
	if _, _, err := rjson.ReadObject(w); err == nil {
		out["object"] = true
	}
	if _, _, err := rjson.ReadArray(w); err == nil {
		out["array"] = true
	}
	return out
}

var familyOfKind = map[int]string{ref.TNull: "null", ref.TTrue: "bool", ref.TFalse: "bool", ref.TString: "string", ref.TNumber: "number", ref.TObjectStart: "object", ref.TArrayStart: "array"}

func checkTokens(w []byte, a *ref.PDA) (string, bool, string, string) {
	rb, rkind, rp, reof := ref.NextToken(w)
	// NextToken
	tb, tp, terr := rjson.NextToken(w)
	tt, ttp, tterr := rjson.NextTokenType(w)
	// The property: skip exactly the JSON whitespace, classify the next byte by the table,
	// report its index plus one, end-of-input only for empty / all-whitespace input. Whether
	// a byte outside the table is additionally reported as an error is not part of it.
	if reof {
		if terr != io.EOF {
			return "NextToken/eof", false, "io.EOF", errStr(terr)
		}
		if tterr != io.EOF {
			return "NextTokenType/eof", false, "io.EOF", errStr(tterr)
		}
	} else {
		if terr == io.EOF || tb != rb || tp != rp || (rkind != ref.TInvalid && terr != nil) {
			return "NextToken", false, fmt.Sprintf("%q p=%d", rb, rp), fmt.Sprintf("%q p=%d %s", tb, tp, errStr(terr))
		}
		if tterr == io.EOF || tt != tokKinds[rkind] || ttp != rp || (rkind != ref.TInvalid && tterr != nil) {
			return "NextTokenType", false, fmt.Sprintf("%v p=%d", tokKinds[rkind], rp), fmt.Sprintf("%v p=%d %s", tt, ttp, errStr(tterr))
		}
	}
	// literal readers
	np, nok := ref.Literal(w, "null")
	if p, err := rjson.ReadNull(w); (err == nil) != nok || (nok && p != np) {
		return "ReadNull", false, okStr(nok, np), okStr(err == nil, p)
	}
	tp2, tok := ref.Literal(w, "true")
	fp2, fok := ref.Literal(w, "false")
	v, p, err := rjson.ReadBool(w)
	switch {
	case tok:
		if err != nil || !v || p != tp2 {
			return "ReadBool/true", false, fmt.Sprintf("true p=%d", tp2), fmt.Sprintf("%v p=%d %s", v, p, errStr(err))
		}
	case fok:
		if err != nil || v || p != fp2 {
			return "ReadBool/false", false, fmt.Sprintf("false p=%d", fp2), fmt.Sprintf("%v p=%d %s", v, p, errStr(err))
		}
	default:
		if err == nil {
			return "ReadBool/accepts", false, "error", fmt.Sprintf("%v p=%d nil", v, p)
		}
	}
	// cross-check of the literal spec with the reference PDA (first value is that literal)
	// type exclusivity
	fams := readFamilies(w)
	want := ""
	if !reof {
		want = familyOfKind[rkind]
	}
	for f := range fams {
		if f != want {
			return "exclusivity/" + f, false, fmt.Sprintf("only the %q family may accept (token kind %d)", want, rkind), fmt.Sprintf("families accepting: %v", fams)
		}
	}
	return "", false, "", ""
}

func c13(r *eng.Run) {
	K := r.Pick(1, 2)
	sp := e1Spec{
		handWritten: true,
		entry:       "NextToken/ReadNull/ReadBool",
		probe:       func(w []byte) { rjson.ReadNull(w) },
		probes:      []func([]byte){func(w []byte) { rjson.ReadBool(w) }},
		check:       checkTokens,
		// whitespace prefixes and the literal machines are expanded; numbers, strings and
		// containers are visited (their first bytes, as children) but explored by their own
		// properties
		alive: func(w []byte, a *ref.PDA) bool {
			if a.Depth() > 0 {
				return false
			}
			switch a.Phase {
			case ref.PTop, ref.PLit:
				return true
			case ref.PDone:
				return a.Trail < 2 && len(w) < 12
			}
			return false
		},
		refKey: func(w []byte, a *ref.PDA) string {
			// whitespace run exact up to 3 (the property's table is per byte, the prefix length
			// is control only through the run loop)
			ws := 0
			for ws < len(w) && ref.IsWS(w[ws]) {
				ws++
			}
			if ws > 3 {
				ws = 3
			}
			return fmt.Sprintf("%s~%d", a.Key(), ws)
		},
	}
	res := runE1(r, sp, 0, K, 200000)
	// E1 over scalar tokens too (numbers, strings at top level), for type exclusivity on every
	// node of the scalar explorations
	sp2 := sp
	sp2.entry = "Read* exclusivity"
	sp2.probe, sp2.probes = nil, nil
	sp2.digSat = 3
	sp2.alive = func(w []byte, a *ref.PDA) bool { return a.Alive() && a.Depth() <= 1 && len(w) < 14 }
	sp2.refKey = func(w []byte, a *ref.PDA) string { return a.Key() + ref.StrRefine(w) }
	sp2.noPump = true
	res2 := runE1(r, sp2, 1, K, r.Pick(60000, 400000))
	e1Evidence(r, 1, K, res, res2)
	coverageReport(r, "readNull", "readBool")
	// digit runs of every length 1..20 with one foreign byte (the ASCII neighbours of the digits,
	// number punctuation, white space) at every position: word-at-a-time digit tests
	{
		var fam [][]byte
		for L := 1; L <= 20; L++ {
			for pos := 0; pos < L; pos++ {
				for _, fb := range []byte("/:;<=>?@.eE-+ ,\x00\x1f\x7f\xb1") {
					for _, dg := range []byte("17") {
						b := bytes.Repeat([]byte{dg}, L)
						b[pos] = fb
						fam = append(fam, b, append([]byte(" "), b...))
					}
				}
			}
		}
		runFamily(r, "digit-runs-with-one-foreign-byte", "Read* exclusivity", fam, checkTokens)
	}
	// the complete 256-entry table, directly
	for b := 0; b < 256; b++ {
		for _, pre := range []string{"", " ", "\t\n", "\r \t\n"} {
			w := append([]byte(pre), byte(b))
			if bad, _, exp, got := checkTokens(w, ref.Run(w)); bad != "" {
				r.Violation(eng.Replay{Engine: "table", Entry: "NextToken", Sig: bad + "/" + shortSig(w), InputB64: w, Expected: exp, Got: got})
			}
			r.Add("evaluations", 1)
		}
		_ = rjson.TokenType(b).String()
	}
	r.Set("rule", e1Rule+" Oracle: 256-entry token table typed in from RFC 8259, literal spec, and type exclusivity of all Read families on every node.")
	r.Sample(map[string]interface{}{"kind": "pfx-node", "input": " \t\r\nnul", "note": "followed by all 256 bytes; all Read families run on each"})
}
