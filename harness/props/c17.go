package props

import (
	"bytes"
	"encoding/json"
	"fmt"
	"os"
	"strings"
	"sync/atomic"

	"github.com/willabides/rjson"

	"verifharness/eng"
	"verifharness/ref"
)

func init() {
	Registry["C17"] = c17
	Replayers["C17/trees"] = func(rp *eng.Replay) (bool, string) {
		if lv, ok := rp.Extra["hand_built_depth"].(float64); ok {
			return !handBuiltDeepOK(int(lv)), "hand-built deep tree"
		}
		r := eng.NewRun("C17", "quick", 0, os.DevNull, os.TempDir(), os.DevNull)
		checkCompatTree(r, rp.InputB64)
		return r.Violations() > 0, fmt.Sprintf("%d violations on this document", r.Violations())
	}
	Replayers["C17"] = func(rp *eng.Replay) (bool, string) {
		if rp.Entry == "StdLibCompatibleMap" || rp.Entry == "StdLibCompatibleSlice" {
			str := string(rp.InputB64)
			want := string(ref.SanitizeUTF8(rp.InputB64))
			m := rjson.StdLibCompatibleMap(map[string]interface{}{str: []interface{}{str, map[string]interface{}{str: str}}})
			sl := rjson.StdLibCompatibleSlice([]interface{}{str, map[string]interface{}{str: 1.0}})
			ok := ref.SameTree(m, map[string]interface{}{want: []interface{}{want, map[string]interface{}{want: want}}}) && ref.SameTree(sl, []interface{}{want, map[string]interface{}{want: 1.0}})
			return !ok, fmt.Sprintf("map %s slice %s", treeStr(m), treeStr(sl))
		}
		bad, exp, got := checkCompat(rp.InputB64)
		return bad != "", fmt.Sprintf("%s expected %s got %s", bad, exp, got)
	}
}

// checkCompat is the string-level oracle of C17.
func checkCompat(s []byte) (bad, exp, got string) {
	want := ref.SanitizeUTF8(s)
	g := rjson.StdLibCompatibleString(string(s))
	if g != string(want) {
		return "StdLibCompatibleString", fmt.Sprintf("%q", want), fmt.Sprintf("%q", g)
	}
	if g2 := rjson.StdLibCompatibleString(g); g2 != g {
		return "StdLibCompatibleString/idempotent", fmt.Sprintf("%q", g), fmt.Sprintf("%q", g2)
	}
	menu := dstMenu()
	if len(s) >= 3 {
		menu = menu[4:6] // full "xy" and "xy" with one spare byte: growth is exercised, the rest of the menu on shorter strings
	}
	for _, d := range menu {
		prefix := append([]byte(nil), d.dst...)
		res := rjson.StdLibCompatibleStringBytes(s, d.dst)
		if !bytes.Equal(res, append(append([]byte(nil), prefix...), want...)) {
			return "StdLibCompatibleStringBytes/" + d.name, fmt.Sprintf("%q", append(prefix, want...)), fmt.Sprintf("%q", res)
		}
	}
	// destinations that end in the first bytes of a multi-byte sequence (or in garbage): what is
	// already in the destination is not part of the string, whatever it would combine to
	if len(s) < 3 || (s[0] >= 0x80 && s[0] <= 0xBF) {
		for _, pre := range []string{"\xe2\x82", "\xf0\x9f\x98", "\xc3", "ab\xe2", "\xff", "\xf0\x9f"} {
			for _, spare := range []int{0, 16} {
				dst := append(make([]byte, 0, len(pre)+spare), pre...)
				res := rjson.StdLibCompatibleStringBytes(s, dst)
				if !bytes.Equal(res, append([]byte(pre), want...)) {
					return fmt.Sprintf("StdLibCompatibleStringBytes/destination-ends-in-%q/spare%d", pre, spare), fmt.Sprintf("%q", append([]byte(pre), want...)), fmt.Sprintf("%q", res)
				}
			}
		}
	}
	// cross-check of the reference with encoding/json where the bytes can be embedded in a string
	plain := true
	for _, c := range s {
		if c == '"' || c == '\\' || c < 0x20 {
			plain = false
			break
		}
	}
	if plain && (len(s) < 3 || s[0] >= 0xC0) {
		var js string
		if err := json.Unmarshal(append(append([]byte{'"'}, s...), '"'), &js); err == nil && js != string(want) {
			return "ORACLE reference!=encoding/json", fmt.Sprintf("%q", js), fmt.Sprintf("%q", want)
		}
	}
	return "", "", ""
}

func c17(r *eng.Run) {
	r.Level = "exploration"
	var evals int64
	oracleFaults := int64(0)
	one := func(s []byte, fam string) {
		atomic.AddInt64(&evals, 1)
		var bad, exp, got string
		pan := guard(func() { bad, exp, got = checkCompat(s) })
		if pan != "" {
			bad, exp, got = "panic", "returns normally", pan
		}
		if bad == "" {
			return
		}
		if len(bad) > 6 && bad[:6] == "ORACLE" {
			atomic.AddInt64(&oracleFaults, 1)
			return
		}
		r.Violation(eng.Replay{Engine: "bytes", Entry: "StdLibCompatibleString[Bytes]", Sig: bad + "/" + fam + "/" + shortSig(s), InputB64: append([]byte(nil), s...), Expected: exp, Got: got})
	}
	// all byte strings of length <= 2 (quick) / <= 3 (thorough)
	one(nil, "len0")
	maxLen := 3
	eng.Parallel(256, func(a int) {
		one([]byte{byte(a)}, "len1")
		for b := 0; b < 256; b++ {
			one([]byte{byte(a), byte(b)}, "len2")
			if maxLen >= 3 {
				for c := 0; c < 256; c++ {
					one([]byte{byte(a), byte(b), byte(c)}, "len3")
				}
			}
		}
	})
	r.Set("all_byte_strings_up_to_len", maxLen)
	if r.Thorough() {
		// length 4 over one representative per byte class (all UTF-8 lead/continuation ranges)
		reps := classRepresentatives()
		eng.Parallel(len(reps), func(i int) {
			for _, b := range reps {
				for _, c := range reps {
					for _, d := range reps {
						one([]byte{reps[i], b, c, d}, "len4-classes")
					}
				}
			}
		})
		r.Set("len4_class_representatives", len(reps))
	}
	// explicit-state search over the UTF-8 decoding state (the pending partial sequence, by byte
	// class) x all 256 bytes, to closure
	seen := map[string]bool{}
	pending := func(w []byte) string {
		// Key = byte classes of the suffix that starts at the last lead byte (>= 0xC0) within the
		// last 3 bytes. This does NOT rely on the reference's notion of a valid prefix, so an
		// implementation that wrongly treats e.g. F0 80 as the start of a sequence is still
		// followed through every continuation.
		for k := 1; k <= 3 && k <= len(w); k++ {
			if w[len(w)-k] >= 0xC0 {
				return eng.ClassSuffix(w, k)
			}
		}
		return ""
	}
	queue := [][]byte{nil}
	seen[""] = true
	states, trans := 0, 0
	for len(queue) > 0 {
		w := queue[0]
		queue = queue[1:]
		states++
		for b := 0; b < 256; b++ {
			c := append(append([]byte(nil), w...), byte(b))
			one(c, "dfa")
			if len(c) <= 2 || b%16 == 0 {
				one(append(append([]byte("ok"), c...), "é!"...), "dfa-embedded")
			}
			trans++
			k := pending(c)
			if !seen[k] && len(c) < 12 {
				seen[k] = true
				queue = append(queue, c)
			}
		}
	}
	// position sweep: one high byte at every offset of strings of length 1..33 (chunked fast
	// paths), as plain string, map key and slice element
	sweep := 0
	for L := 1; L <= 33; L++ {
		for pos := 0; pos < L; pos++ {
			for _, hb := range []byte{0x80, 0xBF, 0xC3, 0xE2, 0xF0, 0xFF} {
				b := bytes.Repeat([]byte("a"), L)
				b[pos] = hb
				one(b, "position-sweep")
				sweep++
				str := string(b)
				want := string(ref.SanitizeUTF8(b))
				m := rjson.StdLibCompatibleMap(map[string]interface{}{str: []interface{}{str, map[string]interface{}{str: str}}})
				sl := rjson.StdLibCompatibleSlice([]interface{}{str, map[string]interface{}{str: 1.0}})
				wantM := map[string]interface{}{want: []interface{}{want, map[string]interface{}{want: want}}}
				wantS := []interface{}{want, map[string]interface{}{want: 1.0}}
				if !ref.SameTree(m, wantM) {
					r.Violation(eng.Replay{Engine: "bytes", Entry: "StdLibCompatibleMap", Sig: fmt.Sprintf("map-key-position/len=%d/pos=%d/%#x", L, pos, hb), InputB64: b, Expected: treeStr(wantM), Got: treeStr(m)})
				}
				if !ref.SameTree(sl, wantS) {
					r.Violation(eng.Replay{Engine: "bytes", Entry: "StdLibCompatibleSlice", Sig: fmt.Sprintf("slice-position/len=%d/pos=%d/%#x", L, pos, hb), InputB64: b, Expected: treeStr(wantS), Got: treeStr(sl)})
				}
			}
		}
	}
	// long strings (size thresholds of scratch buffers / alternative code paths) with runs of two
	// and three adjacent invalid bytes at the start, in the middle and at the end
	for _, L := range []int{1000, 4095, 4096, 4097, 5000, 8192, 8193, 65536, 65537, 70000} {
		for _, run := range []string{"\xe2\x82", "\xff\xfe", "\xf0\x9f\x98", "\xc0\x80\x80\x80", "\xed\xa0\x80"} {
			for _, pos := range []int{0, L / 2, L - len(run)} {
				b := bytes.Repeat([]byte("a"), L)
				copy(b[pos:], run)
				one(b, "long-string-with-invalid-run")
				sweep++
				str := string(b)
				want := string(ref.SanitizeUTF8(b))
				m := rjson.StdLibCompatibleMap(map[string]interface{}{str: []interface{}{str}})
				if !ref.SameTree(m, map[string]interface{}{want: []interface{}{want}}) {
					r.Violation(eng.Replay{Engine: "bytes", Entry: "StdLibCompatibleMap", Sig: fmt.Sprintf("map-long-string/L=%d/pos=%d/%q", L, pos, run), InputB64: b, Expected: "sanitised key and value (one U+FFFD per invalid byte)", Got: fmt.Sprintf("key/value lengths differ from %d", len(want))})
				}
			}
		}
	}
	// block boundaries: a multi-byte rune straddling every offset round 64/128/256/512, in a
	// string that also contains an invalid byte (so that no whole-string fast path applies)
	for _, B := range []int{64, 128, 256, 512} {
		for _, rn := range []string{"é", "€", "😀"} {
			for off := -4; off <= 1; off++ {
				for _, bad := range []int{0, 1, 2} { // invalid byte at start / at end / none
					pos := B + off
					b := bytes.Repeat([]byte("a"), B+40)
					copy(b[pos:], rn)
					switch bad {
					case 0:
						b[0] = 0xFF
					case 1:
						b[len(b)-1] = 0xFF
					}
					one(b, "block-boundary")
					sweep++
					str := string(b)
					want := string(ref.SanitizeUTF8(b))
					m := rjson.StdLibCompatibleMap(map[string]interface{}{str: str})
					if !ref.SameTree(m, map[string]interface{}{want: want}) {
						r.Violation(eng.Replay{Engine: "bytes", Entry: "StdLibCompatibleMap", Sig: fmt.Sprintf("map-block-boundary/B=%d/off=%d/%q", B, off, rn), InputB64: b, Expected: "sanitised key and value", Got: treeStr(m)})
					}
				}
			}
		}
	}
	r.Set("position_sweep_strings", sweep)
	r.Set("states", states)
	r.Set("transitions", trans)
	r.Set("traces_validated_against_impl", int(evals))
	// trees
	treeEvals := c17Trees(r)
	r.Add("evaluations", int(evals)+treeEvals)
	r.Set("distinct_nontrivial", int(evals))
	if oracleFaults > 0 {
		r.Inexhaustive(fmt.Sprintf("reference sanitiser disagrees with encoding/json on %d strings (oracle fault)", oracleFaults))
	}
	r.Set("rule", "E5: every byte string of length <= L (complete); explicit-state search over the UTF-8 decoding state (pending partial sequence by byte class) x all 256 bytes to closure, each also embedded in valid context; oracle: per-byte replacement written from the Unicode well-formedness table, cross-checked against encoding/json; identity on valid UTF-8, idempotence, append law over the destination menu. Trees: every value tree with <= N nodes over a string/key menu with invalid UTF-8 through StdLibCompatibleSlice/Map (argument unchanged, result == mapped tree, composed with ReadValue == encoding/json when no keys collide).")
	r.Sample(map[string]interface{}{"kind": "bytes", "input": fmt.Sprintf("%q", []byte{0xE0, 0x80, 0x41}), "expected": "U+FFFD U+FFFD A"})
}

// isProperPrefix reports whether b (1..3 bytes) can be extended to a well-formed UTF-8 sequence
// but is not one itself.
func isProperPrefix(b []byte) bool {
	for _, ext := range [][]byte{{0x80}, {0x90}, {0xA0}, {0xBF}, {0x80, 0x80}, {0x90, 0x80}, {0xA0, 0x80}, {0xBF, 0x80}, {0x8F, 0x80}, {0x9F, 0x80}, {0x80, 0x80, 0x80}, {0x90, 0x80, 0x80}, {0x8F, 0x80, 0x80}} {
		c := append(append([]byte(nil), b...), ext...)
		san := ref.SanitizeUTF8(c)
		if bytes.Equal(san, c) && len(c) <= 4 && !bytes.Equal(ref.SanitizeUTF8(b), b) {
			// c is valid as one sequence iff sanitising b alone changes it and c is unchanged
			return true
		}
	}
	return false
}

func c17Trees(r *eng.Run) int {
	strs := []string{`"a"`, "\"\xff\"", "\"\xe2\x82\"", `"é"`, "\"a\xc0\xafb\"", `"` + "\\" + `ud800"`}
	leaves := append([]string{"null", "1.5", "true"}, strs...)
	keys := []string{`"k"`, "\"\xff\"", "\"\xfe\"", "\"k\xe2\"", `"` + U("00e9") + `"`}
	ds := eng.GenDocs(r.Pick(3, 4), leaves, keys)
	all := ds.All()
	var n, collisions int64
	eng.Parallel(len(all), func(i int) {
		atomic.AddInt64(&n, 1)
		if checkCompatTree(r, []byte(all[i])) {
			atomic.AddInt64(&collisions, 1)
		}
	})
	// deep trees: the deepest values the decoder produces (and the levels round them), arrays,
	// objects and mixed, with the invalid bytes in the innermost value / key; plus hand-built
	// trees deeper than any decoder limit ("at every depth")
	deepN := 0
	for _, lv := range []int{100, 9998, 9999, 10000} {
		for _, wrap := range [][2]string{{"[", "]"}, {`{"k":`, "}"}, {"[{\"\xffk\":", "}]"}} {
			for _, inner := range []string{"[\"x\xffy\"]", "{\"n\xff\":\"v\xfe\"}", "\"s\xff\""} {
				n := lv
				if len(wrap[0]) > 6 {
					n = lv / 2
				}
				if inner[0] != '"' {
					n-- // the innermost container is one more level
				}
				text := []byte(strings.Repeat(wrap[0], n) + inner + strings.Repeat(wrap[1], n))
				checkCompatTree(r, text)
				deepN++
			}
		}
	}
	for _, lv := range []int{12000, 30000} {
		if !handBuiltDeepOK(lv) {
			r.Violation(eng.Replay{Engine: "trees", Entry: "StdLibCompatibleSlice/Map", Sig: fmt.Sprintf("hand-built-depth-%d", lv), Expected: "every string and key converted at every depth", Got: "result differs from the reference conversion",
				Extra: map[string]interface{}{"hand_built_depth": lv}})
		}
		deepN++
	}
	r.Set("deep_trees", deepN)
	n += int64(deepN)
	r.Set("tree_texts", int(n))
	r.Set("tree_key_collisions_skipped", int(collisions))
	return int(n)
}

// handBuiltDeepOK converts a hand-built tree lv levels deep (alternating arrays and objects with
// invalid bytes in every key and in the innermost string) and compares with the reference.
func handBuiltDeepOK(lv int) bool {
	var v interface{} = "x\xffy"
	for i := 0; i < lv; i++ {
		if i%2 == 0 {
			v = []interface{}{v}
		} else {
			v = map[string]interface{}{"k\xff": v}
		}
	}
	var got interface{}
	if x, ok := v.([]interface{}); ok {
		got = rjson.StdLibCompatibleSlice(x)
	} else {
		got = rjson.StdLibCompatibleMap(v.(map[string]interface{}))
	}
	want, _ := ref.SanitizeTree(v)
	return ref.SameTree(got, want)
}

func mutateTree(v interface{}) {
	switch x := v.(type) {
	case []interface{}:
		for i := range x {
			mutateTree(x[i])
			x[i] = "mutated"
		}
	case map[string]interface{}:
		for k := range x {
			mutateTree(x[k])
			x[k] = "mutated"
		}
		x["added"] = 1.0
	}
}

func classRepresentatives() []byte {
	seen := map[byte]bool{}
	var out []byte
	for b := 0; b < 256; b++ {
		c := eng.ByteClass(byte(b))
		if !seen[c] {
			seen[c] = true
			out = append(out, byte(b))
		}
		// also the upper end of each class
		if b == 255 || eng.ByteClass(byte(b+1)) != c {
			if !seen[byte(b)] {
				out = append(out, byte(b))
			}
		}
	}
	return out
}

// checkCompatTree is the tree-level oracle of C17 on one document; it reports whether the
// comparison was skipped because keys collide after replacement.
func checkCompatTree(r *eng.Run, text []byte) (collided bool) {
	v, _, err := rjson.ReadValue(text)
	if err != nil {
		return collided
	}
	frozen := cloneTree(v)
	var got interface{}
	switch x := v.(type) {
	case []interface{}:
		got = rjson.StdLibCompatibleSlice(x)
	case map[string]interface{}:
		got = rjson.StdLibCompatibleMap(x)
	case string:
		got = rjson.StdLibCompatibleString(x)
	default:
		return collided
	}
	rp := func(bad, exp, g string) {
		if len(exp) > 600 {
			exp = exp[:300] + " ... " + exp[len(exp)-300:]
		}
		if len(g) > 600 {
			g = g[:300] + " ... " + g[len(g)-300:]
		}
		r.Violation(eng.Replay{Engine: "trees", Entry: "StdLibCompatibleSlice/Map", Sig: bad + "/" + shortSig(text), InputB64: text, Expected: exp, Got: g})
	}
	if !ref.SameTree(v, frozen) {
		rp("argument-modified", treeStr(frozen), treeStr(v))
		return collided
	}
	want, collide := ref.SanitizeTree(frozen)
	if collide {
		collided = true
		// keys collide after replacement: which member wins is unspecified; compare shapes only
		return collided
	}
	if !ref.SameTree(got, want) {
		rp("result", treeStr(want), treeStr(got))
		return collided
	}
	if sv, _, ok := stdTree(text); ok && !ref.SameTree(got, sv) {
		rp("composed-with-ReadValue!=encoding/json", treeStr(sv), treeStr(got))
	}
	// the result must be a copy: mutate it and look at the argument again
	mutateTree(got)
	if !ref.SameTree(v, frozen) {
		rp("result-aliases-argument", treeStr(frozen), treeStr(v))
	}
	return collided
}
