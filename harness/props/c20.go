package props

import (
	"bufio"
	"bytes"
	"encoding/json"
	"fmt"
	"os"
	"os/exec"
	"runtime"
	"sort"
	"strings"
	"time"

	"github.com/willabides/rjson"

	"verifharness/eng"
)

func init() {
	Registry["C20"] = c20
	Replayers["C20"] = func(rp *eng.Replay) (bool, string) {
		fam, _ := rp.Extra["family"].(string)
		if fam == "costgraph" {
			return false, "cost-graph findings are re-checked by running ./check C20 (needs the whole graph)"
		}
		n := 0
		if f, ok := rp.Extra["n"].(float64); ok {
			n = int(f)
		}
		runtime.GOMAXPROCS(1)
		for _, sf := range shapeFamilies() {
			if sf.name == fam {
				m := sf.measure(n)
				return m.Alloc > m.bound(), fmt.Sprintf("%s n=%d: allocated %d bytes for %d input bytes in %d calls; bound %d", fam, n, m.Alloc, m.Len, m.Calls, m.bound())
			}
		}
		return false, "unknown family " + fam
	}
}

// The bound that is checked: over every history prefix,
//
//	total bytes allocated <= c20PerByte * total input length + c20PerCall * calls.
const (
	c20PerByte = 1024
	c20PerCall = 64 << 10
)

type measure struct {
	Family string `json:"family"`
	N      int    `json:"n"`
	Len    int    `json:"len"`
	Calls  int    `json:"calls"`
	Alloc  uint64 `json:"alloc"`
	// Limit, when set, is the bound for this measurement (steady-state families: what the same
	// small call costs on an object that never saw the large document, plus a fixed slack)
	Limit uint64 `json:"limit,omitempty"`
}

func (m measure) bound() uint64 {
	if m.Limit > 0 {
		return m.Limit
	}
	return uint64(c20PerByte*m.Len + c20PerCall*m.Calls)
}

// steadySlack is what a small call on an object with a history may allocate beyond what the same
// call allocates on an object without that history, once three such calls have been made.
const steadySlack = 16 << 10

// allocDuring returns the bytes allocated by f (cumulative TotalAlloc delta; the collector stays on).
func allocDuring(f func()) uint64 {
	var a, b runtime.MemStats
	runtime.ReadMemStats(&a)
	f()
	runtime.ReadMemStats(&b)
	return b.TotalAlloc - a.TotalAlloc
}

type shapeFamily struct {
	name    string
	measure func(n int) measure
}

func rep(s string, n int) string { return strings.Repeat(s, n) }

func bigObject(n int) string {
	var sb strings.Builder
	sb.WriteString("{")
	for i := 0; i < n; i++ {
		if i > 0 {
			sb.WriteString(",")
		}
		fmt.Fprintf(&sb, `"k%d":%d`, i, i)
	}
	sb.WriteString("}")
	return sb.String()
}

func bigArray(n int, elem string) string {
	return "[" + strings.TrimSuffix(rep(elem+",", n), ",") + "]"
}

// shapeFamilies are the adversarial document shapes and call sequences; every family is
// measured through the stated entry point(s) with fresh objects unless it says "reused".
func shapeFamilies() []shapeFamily {
	one := func(name string, doc func(n int) string, call func(doc []byte)) shapeFamily {
		return shapeFamily{name, func(n int) measure {
			d := []byte(doc(n))
			return measure{Family: name, N: n, Len: len(d), Calls: 1, Alloc: allocDuring(func() { call(d) })}
		}}
	}
	readValue := func(d []byte) { rjson.ReadValue(d) }
	var fams []shapeFamily
	docs := map[string]func(n int) string{
		"big-object-then-small-objects":        func(n int) string { return "[" + bigObject(n) + rep(",{}", n) + "]" },
		"big-object-then-small-objects-in-obj": func(n int) string { return `{"a":` + bigObject(n) + rep(`,"b":{}`, n) + "}" },
		"small-objects-then-big-object":        func(n int) string { return "[" + rep("{},", n) + bigObject(n) + "]" },
		"big-array-then-small-arrays":          func(n int) string { return "[" + bigArray(n, "1") + rep(",[]", n) + "]" },
		"big-object-then-nested-small":         func(n int) string { return "[" + bigObject(n) + rep(`,[{"a":{}}]`, n) + "]" },
		"alternating-big-small-objects":        func(n int) string { return "[" + strings.TrimSuffix(rep(bigObject(40)+",{},", n/40+1), ",") + "]" },
		"escapes-at-every-level":               func(n int) string { return rep(`["`+"\\"+`n",`, n) + "1" + rep("]", n) },
		"escaped-keys-at-every-level":          func(n int) string { return rep(`{"`+"\\"+`tk":`, n) + "1" + rep("}", n) },
		"escaped-strings-wide":                 func(n int) string { return bigArray(n, `"a`+"\\"+`nb"`) },
		"long-escaped-string":                  func(n int) string { return `"` + rep(`\n`, n*4) + `"` },
		"escaped-quote-then-unicode-escapes":   func(n int) string { return `"` + "\\" + `"` + rep(U("0041"), n*2) + `"` },
		"escaped-quotes-and-escapes":           func(n int) string { return `"` + rep("\\"+`"`+"\\"+`n`+U("00e9"), n) + `"` },
		"plain-then-late-escapes":              func(n int) string { return `"` + rep("x", n*4) + rep(U("d83d")+U("de00"), n) + `"` },
		"deep-arrays":                          func(n int) string { return rep("[", n) + rep("]", n) },
		"deep-then-error-arrays":               func(n int) string { return rep("[0,", n) + "!" },
		"deep-then-error-objects":              func(n int) string { return rep(`{"k":`, n) + "!" },
		"deep-then-eof-mixed":                  func(n int) string { return rep(`[{"k":`, n/2) },
		"long-string-then-deep-nesting":        func(n int) string { return `["` + rep("x", n*8) + `",` + rep("[", n) + rep("]", n) + "]" },
		"long-escaped-key-then-deep-nesting": func(n int) string {
			return `{"` + "\\" + `t` + rep("k", n*8) + `":` + rep(`{"a":`, n) + "1" + rep("}", n) + "}"
		},
		"long-escaped-strings-wide":           func(n int) string { return bigArray(n/8+1, `"`+"\\"+`n`+rep("y", 300)+`"`) },
		"long-escaped-strings-at-every-level": func(n int) string { return rep(`["`+"\\"+`n`+rep("y", 300)+`",`, n/8+1) + "1" + rep("]", n/8+1) },
		"deep-objects":                        func(n int) string { return rep(`{"a":`, n) + "1" + rep("}", n) },
		"deep-with-siblings":                  func(n int) string { return rep("[[],", n) + "1" + rep("]", n) },
		"wide-numbers":                        func(n int) string { return bigArray(n, "1.5e3") },
		"wide-strings":                        func(n int) string { return bigArray(n, `"abcdefgh"`) },
		"wide-bools-nulls":                    func(n int) string { return bigArray(n, "true,null") },
		"wide-object-of-objects":              func(n int) string { return "{" + strings.TrimSuffix(rep(`"k":{"a":1},`, n), ",") + "}" },
	}
	// cross product: a big container, then a sibling that holds many / deeply nested small
	// containers, inside an array and inside an object (size hints handed down or sideways)
	bigs := map[string]func(n int) string{"big-object": bigObject, "big-array": func(n int) string { return bigArray(n, "1") }}
	followers := map[string]func(n int) string{
		"deep-object-chain": func(n int) string { return rep(`{"a":`, n) + "1" + rep("}", n) },
		"deep-array-chain":  func(n int) string { return rep("[", n) + rep("]", n) },
		"deep-mixed-chain":  func(n int) string { return rep(`{"a":[`, n/2) + "1" + rep("]}", n/2) },
		"many-small-objects-in-object": func(n int) string {
			var b strings.Builder
			b.WriteString("{")
			for i := 0; i < n; i++ {
				if i > 0 {
					b.WriteString(",")
				}
				fmt.Fprintf(&b, `"m%d":{"x":1}`, i)
			}
			b.WriteString("}")
			return b.String()
		},
		"many-small-arrays-in-array":  func(n int) string { return "[" + strings.TrimSuffix(rep("[1],", n), ",") + "]" },
		"many-small-objects-in-array": func(n int) string { return "[" + strings.TrimSuffix(rep(`{"x":1},`, n), ",") + "]" },
	}
	for bn, bf := range bigs {
		for fn, ff := range followers {
			bf, ff := bf, ff
			docs[bn+"-then-"+fn+"/in-array"] = func(n int) string { return "[" + bf(n) + "," + ff(n) + "]" }
			docs[bn+"-then-"+fn+"/in-object"] = func(n int) string { return `{"first":` + bf(n) + `,"second":` + ff(n) + "}" }
		}
	}
	var names []string
	for k := range docs {
		names = append(names, k)
	}
	sort.Strings(names)
	for _, k := range names {
		fams = append(fams, one("ReadValue/"+k, docs[k], readValue))
	}
	for _, k := range []string{"escaped-quote-then-unicode-escapes", "escaped-quotes-and-escapes", "plain-then-late-escapes", "long-escaped-string"} {
		d := docs[k]
		fams = append(fams,
			one("ReadStringBytes/"+k, d, func(b []byte) { rjson.ReadStringBytes(b, nil) }),
			one("ReadString/"+k, d, func(b []byte) { rjson.ReadString(b, nil) }),
			one("UnescapeStringContent/"+k, d, func(b []byte) { rjson.UnescapeStringContent(b[1:len(b)-1], nil) }),
		)
	}
	docs["deep-objects-in-object"] = func(n int) string { return `{"a":0,"k":` + rep(`{"a":`, n) + "1" + rep("}", n) + "}" }
	docs["deep-mixed-in-object"] = func(n int) string { return `{"k":` + rep(`[{"a":0,"b":`, n/2) + "1" + rep("}]", n/2) + "}" }
	for _, k := range []string{"deep-objects-in-object", "deep-mixed-in-object", "deep-arrays", "deep-objects", "deep-with-siblings", "wide-numbers", "escapes-at-every-level", "big-object-then-small-objects", "long-escaped-string", "deep-then-error-arrays", "deep-then-error-objects", "deep-then-eof-mixed"} {
		d := docs[k]
		fams = append(fams,
			one("Valid/"+k, d, func(b []byte) { rjson.Valid(b, nil) }),
			one("SkipValue/"+k, d, func(b []byte) { rjson.SkipValue(b, nil) }),
			one("HandleArrayValues-decline/"+k, d, func(b []byte) {
				rjson.HandleArrayValues(b, rjson.ArrayValueHandlerFunc(func([]byte) (int, error) { return 0, nil }), nil)
			}),
			one("HandleObjectValues-decline/"+k, d, func(b []byte) {
				rjson.HandleObjectValues(b, rjson.ObjectValueHandlerFunc(func(_, _ []byte) (int, error) { return 0, nil }), nil)
			}),
			one("SkipValueFast/"+k, d, func(b []byte) { rjson.SkipValueFast(b, nil) }),
		)
	}
	fams = append(fams,
		one("HandleArrayValues+ReadString(nil)/long-escaped-strings-wide", docs["long-escaped-strings-wide"], func(b []byte) {
			rjson.HandleArrayValues(b, rjson.ArrayValueHandlerFunc(func(d []byte) (int, error) { _, p, err := rjson.ReadString(d, nil); return p, err }), nil)
		}),
		one("HandleArrayValues+ReadStringBytes(nil)/long-escaped-strings-wide", docs["long-escaped-strings-wide"], func(b []byte) {
			rjson.HandleArrayValues(b, rjson.ArrayValueHandlerFunc(func(d []byte) (int, error) { _, p, err := rjson.ReadStringBytes(d, nil); return p, err }), nil)
		}),
	)
	// reused reader: one large document, then n small ones
	reusedVia := func(name string, first string, big func(n int) string, small string) shapeFamily {
		return shapeFamily{name, func(n int) measure {
			var vr rjson.ValueReader
			bd := []byte(big(n))
			sd := []byte(small)
			total := len(bd)
			calls := 1
			a := allocDuring(func() {
				switch first {
				case "ReadArray":
					vr.ReadArray(bd)
				case "ReadObject":
					vr.ReadObject(bd)
				default:
					vr.ReadValue(bd)
				}
				for i := 0; i < n; i++ {
					switch {
					case first == "ReadArray" && (sd[0] == '[' || sd[0] == 'n'):
						vr.ReadArray(sd)
					case first == "ReadObject" && (sd[0] == '{' || sd[0] == 'n'):
						vr.ReadObject(sd)
					default:
						vr.ReadValue(sd)
					}
				}
			})
			total += n * len(sd)
			calls += n
			return measure{Family: name, N: n, Len: total, Calls: calls, Alloc: a}
		}}
	}
	reused := func(name string, big func(n int) string, small string) shapeFamily {
		return reusedVia(name, "ReadValue", big, small)
	}
	fams = append(fams,
		reusedVia("reused-reader/ReadArray-big-objects-then-small-objects", "ReadArray", func(n int) string { return "[" + bigObject(n) + "," + bigObject(3) + "]" }, `{"a":1}`),
		reusedVia("reused-reader/ReadObject-big-then-small-objects", "ReadObject", func(n int) string { return `{"x":` + bigObject(n) + `,"y":{}}` }, `{"a":{"b":1}}`),
		reusedVia("reused-reader/ReadArray-big-array-then-small-arrays", "ReadArray", func(n int) string { return "[" + bigArray(n, "1") + ",[2]]" }, `[[1],2]`),
		reused("reused-reader/big-array-then-failing-small-docs", func(n int) string { return bigArray(n*20, "1") }, `[1,`),
		reusedVia("reused-reader/ReadArray-big-array-then-nulls", "ReadArray", func(n int) string { return bigArray(n*20, "1") }, `null`),
		reusedVia("reused-reader/ReadObject-big-object-then-failing-small-docs", "ReadObject", func(n int) string { return bigObject(n * 5) }, `{"a":1,`),
		reused("reused-reader/long-string-then-small-deep-docs", func(n int) string { return `["` + rep("x", n*40) + `"]` }, `[[[[[[[[1]]]]]]]]`),
		reused("reused-reader/big-object-then-small-docs", bigObject, `{"a":{"b":1}}`),
		reused("reused-reader/big-object-in-array-then-small-docs", func(n int) string { return "[" + bigObject(n) + ",{}]" }, `[{"a":1},{"b":{}}]`),
		reused("reused-reader/big-array-then-small-docs", func(n int) string { return bigArray(n, "[1]") }, `[[1],[2]]`),
		reused("reused-reader/deep-then-small-docs", func(n int) string { return rep("[", n) + rep("]", n) }, `[[1]]`),
		reused("reused-reader/long-escaped-string-then-small-docs", func(n int) string { return `["` + rep(`\n`, n*4) + `"]` }, `["`+"\\"+`n"]`),
	)
	// steady state after a large document: the 4th..6th small call on the object with the history
	// (minimum of the three) against the 4th..6th on an object without it. This decides "a reader
	// / buffer that has once processed a large document does not make an unbounded number of later
	// small documents expensive" with a bound that does not depend on the per-call constant.
	steady := func(name string, big func(n int) string, bigCall func(big []byte, b *rjson.Buffer, vr *rjson.ValueReader), small string, smallCall func(small []byte, b *rjson.Buffer, vr *rjson.ValueReader)) shapeFamily {
		return shapeFamily{name, func(n int) measure {
			sd := []byte(small)
			run := func(withBig bool) uint64 {
				var b rjson.Buffer
				var vr rjson.ValueReader
				if withBig {
					bigCall([]byte(big(n)), &b, &vr)
				}
				best := ^uint64(0)
				for i := 0; i < 6; i++ {
					a := allocDuring(func() { smallCall(sd, &b, &vr) })
					if i >= 3 && a < best {
						best = a
					}
				}
				return best
			}
			fresh := run(false)
			used := run(true)
			return measure{Family: name, N: n, Len: len(sd), Calls: 1, Alloc: used, Limit: fresh + steadySlack}
		}}
	}
	declArr := rjson.ArrayValueHandlerFunc(func([]byte) (int, error) { return 0, nil })
	declObj := rjson.ObjectValueHandlerFunc(func(_, _ []byte) (int, error) { return 0, nil })
	type bcall struct {
		name string
		f    func(d []byte, b *rjson.Buffer, vr *rjson.ValueReader)
	}
	bufBig := []bcall{
		{"Valid", func(d []byte, b *rjson.Buffer, _ *rjson.ValueReader) { rjson.Valid(d, b) }},
		{"SkipValueFast", func(d []byte, b *rjson.Buffer, _ *rjson.ValueReader) { rjson.SkipValueFast(d, b) }},
		{"HandleArrayValues-decline", func(d []byte, b *rjson.Buffer, _ *rjson.ValueReader) { rjson.HandleArrayValues(d, declArr, b) }},
	}
	bufSmall := []bcall{
		{"Valid", func(d []byte, b *rjson.Buffer, _ *rjson.ValueReader) { rjson.Valid(d, b) }},
		{"SkipValue", func(d []byte, b *rjson.Buffer, _ *rjson.ValueReader) { rjson.SkipValue(d, b) }},
		{"SkipValueFast", func(d []byte, b *rjson.Buffer, _ *rjson.ValueReader) { rjson.SkipValueFast(d, b) }},
		{"HandleArrayValues-decline", func(d []byte, b *rjson.Buffer, _ *rjson.ValueReader) { rjson.HandleArrayValues(d, declArr, b) }},
		{"HandleObjectValues-decline", func(d []byte, b *rjson.Buffer, _ *rjson.ValueReader) {
			rjson.HandleObjectValues([]byte(`{"a":[1,{"b":2}]}`), declObj, b)
		}},
	}
	for _, bg := range bufBig {
		for _, sm := range bufSmall {
			fams = append(fams, steady("steady-buffer/deep-"+bg.name+"-then-"+sm.name, func(n int) string { return rep("[", n) + rep("]", n) }, bg.f, `[[1],{"a":[2]}]`, sm.f))
		}
	}
	vrBig := map[string]func(n int) string{
		"big-object":          bigObject,
		"big-array":           func(n int) string { return bigArray(n*4, "1") },
		"deep":                func(n int) string { return rep("[", n) + rep("]", n) },
		"long-escaped-string": func(n int) string { return `["` + rep(`\n`, n*4) + `"]` },
		"big-array-of-objs":   func(n int) string { return bigArray(n, `{"a":1}`) },
	}
	vrSmall := []struct{ name, doc, fn string }{
		{"small-object", `{"a":{"b":1}}`, "ReadValue"}, {"small-array", `[[1],2]`, "ReadValue"}, {"escaped", `["` + "\\" + `n"]`, "ReadValue"}, {"failing", `[1,`, "ReadValue"},
		{"ReadObject-small", `{"a":1}`, "ReadObject"}, {"ReadArray-small", `[1,[2]]`, "ReadArray"}, {"ReadArray-null", `null`, "ReadArray"},
	}
	vrCall := func(fn string) func(d []byte, _ *rjson.Buffer, vr *rjson.ValueReader) {
		return func(d []byte, _ *rjson.Buffer, vr *rjson.ValueReader) {
			switch fn {
			case "ReadObject":
				vr.ReadObject(d)
			case "ReadArray":
				vr.ReadArray(d)
			default:
				vr.ReadValue(d)
			}
		}
	}
	for _, bn := range []string{"big-object", "big-array", "deep", "long-escaped-string", "big-array-of-objs"} {
		for _, sm := range vrSmall {
			for _, bigFn := range []string{"ReadValue", "ReadArray"} {
				if bigFn == "ReadArray" && bn == "big-object" {
					bigFn = "ReadObject"
				}
				fams = append(fams, steady("steady-reader/"+bigFn+"-"+bn+"-then-"+sm.name, vrBig[bn], vrCall(bigFn), sm.doc, vrCall(sm.fn)))
			}
		}
	}
	// handlers that re-enter the library WITHOUT a Buffer for every member (each inner call sees
	// the rest of the document): many small containers, skipped / traversed one by one
	innerNil := map[string]func(d []byte) (int, error){
		"SkipValue":     func(d []byte) (int, error) { return rjson.SkipValue(d, nil) },
		"SkipValueFast": func(d []byte) (int, error) { return rjson.SkipValueFast(d, nil) },
		"Valid+decline": func(d []byte) (int, error) { rjson.Valid(d[:1], nil); return 0, nil },
		"HandleArrayValues": func(d []byte) (int, error) {
			if d[0] != '[' {
				return 0, nil
			}
			return rjson.HandleArrayValues(d, declArr, nil)
		},
		"HandleObjectValues": func(d []byte) (int, error) {
			if d[0] != '{' {
				return 0, nil
			}
			return rjson.HandleObjectValues(d, declObj, nil)
		},
	}
	for _, in := range []string{"SkipValue", "SkipValueFast", "Valid+decline", "HandleArrayValues", "HandleObjectValues"} {
		f := innerNil[in]
		fams = append(fams,
			one("HandleArrayValues+"+in+"(nil)-per-member/many-small-arrays", func(n int) string { return bigArray(n, "[1]") }, func(b []byte) {
				rjson.HandleArrayValues(b, rjson.ArrayValueHandlerFunc(f), nil)
			}),
			one("HandleObjectValues+"+in+"(nil)-per-member/many-small-objects", func(n int) string { return "{" + strings.TrimSuffix(rep(`"k":{"a":[1]},`, n), ",") + "}" }, func(b []byte) {
				rjson.HandleObjectValues(b, rjson.ObjectValueHandlerFunc(func(_, d []byte) (int, error) { return f(d) }), nil)
			}),
		)
	}
	// handlers that try a typed reader / Decode function on every member and ignore its failure
	// (nullable columns, probing): a failing call sees the rest of the document and must not pay
	// for it
	{
		var i64 int64
		var u64 uint64
		var i32 int32
		var u32 uint32
		var in int
		var un uint
		var fl float64
		var bo bool
		var st string
		probes := map[string]func(d []byte){
			"ReadUint64":    func(d []byte) { rjson.ReadUint64(d) },
			"ReadInt64":     func(d []byte) { rjson.ReadInt64(d) },
			"ReadInt32":     func(d []byte) { rjson.ReadInt32(d) },
			"ReadUint32":    func(d []byte) { rjson.ReadUint32(d) },
			"ReadFloat64":   func(d []byte) { rjson.ReadFloat64(d) },
			"ReadBool":      func(d []byte) { rjson.ReadBool(d) },
			"ReadNull":      func(d []byte) { rjson.ReadNull(d) },
			"ReadString":    func(d []byte) { rjson.ReadString(d, nil) },
			"DecodeInt64":   func(d []byte) { rjson.DecodeInt64(d, &i64) },
			"DecodeUint64":  func(d []byte) { rjson.DecodeUint64(d, &u64) },
			"DecodeInt32":   func(d []byte) { rjson.DecodeInt32(d, &i32) },
			"DecodeUint32":  func(d []byte) { rjson.DecodeUint32(d, &u32) },
			"DecodeInt":     func(d []byte) { rjson.DecodeInt(d, &in) },
			"DecodeUint":    func(d []byte) { rjson.DecodeUint(d, &un) },
			"DecodeFloat64": func(d []byte) { rjson.DecodeFloat64(d, &fl) },
			"DecodeBool":    func(d []byte) { rjson.DecodeBool(d, &bo) },
			"DecodeString":  func(d []byte) { rjson.DecodeString(d, &st, nil) },
			"NextToken":     func(d []byte) { rjson.NextToken(d); rjson.NextTokenType(d) },
		}
		var names []string
		for n := range probes {
			names = append(names, n)
		}
		sortStrings(names)
		for _, pn := range names {
			pf := probes[pn]
			for _, el := range []struct{ name, elem string }{{"nulls", "null"}, {"strings", `"x"`}, {"numbers", "-1.5"}, {"bools", "true"}, {"garbage", "nul"}} {
				el := el
				fams = append(fams, one("HandleArrayValues+"+pn+"-probe-per-member/"+el.name, func(n int) string { return bigArray(n*2, el.elem) }, func(b []byte) {
					rjson.HandleArrayValues(b, rjson.ArrayValueHandlerFunc(func(d []byte) (int, error) { pf(d); return 0, nil }), nil)
				}))
			}
		}
	}
	// reused buffer
	fams = append(fams, shapeFamily{"reused-buffer/deep-then-small", func(n int) measure {
		var buf rjson.Buffer
		bd := []byte(rep("[", n) + rep("]", n))
		sd := []byte(`[[1],{"a":[2]}]`)
		a := allocDuring(func() {
			rjson.Valid(bd, &buf)
			for i := 0; i < n; i++ {
				rjson.Valid(sd, &buf)
				rjson.SkipValue(sd, &buf)
			}
		})
		return measure{Family: "reused-buffer/deep-then-small", N: n, Len: len(bd) + 2*n*len(sd), Calls: 1 + 2*n, Alloc: a}
	}})
	return fams
}

// noDepthCap: entry points without a nesting limit (the deep families may grow past 10,000 levels).
func noDepthCap(family string) bool {
	return strings.HasPrefix(family, "HandleArrayValues-decline/") || strings.HasPrefix(family, "HandleObjectValues-decline/") || strings.HasPrefix(family, "SkipValueFast/")
}

// c20ShapesChild runs in the uninstrumented binary: every family in ascending sizes, stopping a
// family at its first size that violates the bound (so quadratic families never reach sizes that
// would need gigabytes).
func c20ShapesChild() {
	runtime.GOMAXPROCS(1)
	sizes := []int{250, 500, 1000, 2000, 4000, 8000}
	if os.Getenv("VERIF_C20_CHILD") == "thorough" {
		sizes = append(sizes, 16000, 32000)
	}
	out := bufio.NewWriter(os.Stdout)
	defer out.Flush()
	for _, f := range shapeFamilies() {
		var prev, last measure
		violated := false
		for _, n := range sizes {
			if strings.Contains(f.name, "deep") && n > 9000 && !noDepthCap(f.name) {
				continue
			}
			// every measurement starts right after a collection: the runtime's own bookkeeping for
			// sync.Pool (a process-global list of all pools used since the last collection, grown by
			// doubling) is otherwise charged to whichever call happens to trigger the next doubling -
			// megabytes after a family that created 8000 pools, nothing to do with this document
			runtime.GC()
			m := f.measure(n)
			b, _ := json.Marshal(m)
			fmt.Fprintf(out, "C20-MEASURE %s\n", b)
			out.Flush()
			prev, last = last, m
			if m.Alloc > m.bound() {
				violated = true
				break
			}
		}
		// adaptive deepening: while the cost still grows faster than 3x per doubling the family is
		// followed to larger sizes (the absolute bound still decides; a linear family stops here)
		for !violated && prev.Alloc > 0 && float64(last.Alloc) >= 3*float64(prev.Alloc) && last.N < 300000 && last.Alloc < 6<<30 && (!strings.Contains(f.name, "deep") || noDepthCap(f.name)) {
			runtime.GC()
			m := f.measure(last.N * 2)
			b, _ := json.Marshal(m)
			fmt.Fprintf(out, "C20-MEASURE %s\n", b)
			out.Flush()
			prev, last = last, m
			if m.Alloc > m.bound() {
				violated = true
			}
		}
	}
	fmt.Fprintln(out, "C20-DONE")
}

func c20(r *eng.Run) {
	if os.Getenv("VERIF_C20_CHILD") != "" {
		c20ShapesChild()
		os.Exit(0)
	}
	runtime.GOMAXPROCS(1)
	c20CostGraph(r)
	c20Shapes(r)
	r.Set("bound", fmt.Sprintf("alloc <= %d B/byte * total input length + %d B * calls, over every history prefix; GOMAXPROCS=1", c20PerByte, c20PerCall))
	r.Set("rule", "E3 cost graph: BFS over call histories on one ValueReader (pool shim) over a document alphabet with large/deep/escaped documents followed by small ones; every transition (canonical state, op) is labelled with weight = bytes allocated - c*len - c'; the bound over every history prefix is a longest-walk question on the finite weighted graph (Bellman-Ford from the initial state: a reachable positive cycle refutes the bound for unboundedly many later calls; without one the maximum walk weight must be <= 0); every transition is measured from two witness histories. Shape families x sizes (uninstrumented subprocess): adversarial documents and reuse sequences through ReadValue / Valid / SkipValue / HandleArrayValues / string readers, ascending sizes, absolute bound at every size, doubling ratio reported.")
	r.Assume("allocation is a function of (canonical reader state, op) — checked by measuring every transition from two witness histories; constants c=1024 B/byte, c'=64 KiB are this check's (largest benign ratio measured about 215 B/byte); runtime pinned to GOMAXPROCS=1")
}

// ---- (b) shape families ----------------------------------------------------------------------

func c20Shapes(r *eng.Run) {
	exe := os.Getenv("VERIF_BARE_HARNESS")
	if exe == "" {
		var err error
		exe, err = os.Executable()
		if err != nil {
			r.Inexhaustive("no executable for the shape-family subprocess")
			return
		}
		r.Note("uninstrumented build not available; shape families measured in the instrumented binary")
	}
	cmd := exec.Command("/bin/bash", "-c", "ulimit -v 24000000; exec \"$0\" -id C20", exe)
	cmd.Env = append(os.Environ(), "VERIF_C20_CHILD="+r.Tier, "GOMEMLIMIT=16GiB", "GOMAXPROCS=1")
	var out bytes.Buffer
	cmd.Stdout = &out
	cmd.Stderr = &out
	if err := cmd.Start(); err != nil {
		r.Inexhaustive("cannot start shape subprocess: " + err.Error())
		return
	}
	done := make(chan error, 1)
	go func() { done <- cmd.Wait() }()
	select {
	case <-done:
	case <-time.After(30 * time.Minute):
		_ = cmd.Process.Kill()
		r.Inexhaustive("shape subprocess exceeded 30 minutes")
	}
	text := out.String()
	byFam := map[string][]measure{}
	var order []string
	n := 0
	for _, l := range strings.Split(text, "\n") {
		if !strings.HasPrefix(l, "C20-MEASURE ") {
			continue
		}
		var m measure
		if json.Unmarshal([]byte(strings.TrimPrefix(l, "C20-MEASURE ")), &m) != nil {
			continue
		}
		if _, ok := byFam[m.Family]; !ok {
			order = append(order, m.Family)
		}
		byFam[m.Family] = append(byFam[m.Family], m)
		n++
	}
	if !strings.Contains(text, "C20-DONE") {
		r.Inexhaustive("shape subprocess did not finish: " + tail(text, 300))
	}
	maxRatio := 0.0
	worst := ""
	ratios := map[string]string{}
	for _, fam := range order {
		ms := byFam[fam]
		for i, m := range ms {
			perByte := float64(m.Alloc) / float64(m.Len)
			if m.Alloc <= m.bound() && perByte > maxRatio {
				maxRatio, worst = perByte, fmt.Sprintf("%s n=%d", fam, m.N)
			}
			if i > 0 {
				ratios[fam] = fmt.Sprintf("%.2f", float64(m.Alloc)/float64(ms[i-1].Alloc))
			}
			if m.Alloc > m.bound() {
				exp := fmt.Sprintf("<= %d bytes (%d B/byte x %d bytes + %d B x %d calls)", m.bound(), c20PerByte, m.Len, c20PerCall, m.Calls)
				if m.Limit > 0 {
					exp = fmt.Sprintf("<= %d bytes for one small call in steady state (what it costs on an object without the large document in its past, plus %d)", m.Limit, steadySlack)
				}
				r.Violation(eng.Replay{Engine: "shapes", Entry: fam, Sig: "superlinear/" + fam, Expected: exp,
					Got:   fmt.Sprintf("%d bytes allocated at n=%d (%.0f B per input byte)", m.Alloc, m.N, perByte),
					Extra: map[string]interface{}{"family": fam, "n": m.N}})
			}
		}
	}
	r.Set("shape_families", len(order))
	r.Set("shape_measurements", n)
	r.Set("largest_benign_bytes_per_input_byte", fmt.Sprintf("%.0f (%s)", maxRatio, worst))
	r.Set("last_doubling_ratio_by_family", ratios)
	r.Add("evaluations", n)
	r.Add("distinct_nontrivial", len(order))
	r.Sample(map[string]interface{}{"kind": "shape", "family": "ReadValue/big-object-then-small-objects", "doc": `[{"k0":0,...,"k(n-1)":n-1},{},{},... n times]`, "sizes": "250..8000"})
}

// ---- (a) cost graph ---------------------------------------------------------------------------

type costOp struct {
	name string
	doc  []byte
	fn   string // "" = ReadValue, "ReadArray", "ReadObject"
}

func (o costOp) apply(vr *rjson.ValueReader) {
	switch o.fn {
	case "ReadArray":
		vr.ReadArray(o.doc)
	case "ReadObject":
		vr.ReadObject(o.doc)
	default:
		vr.ReadValue(o.doc)
	}
}

func costAlphabet(thorough bool) []costOp {
	n := 2000
	ops := []costOp{
		{"small-scalar", []byte(`1.5`), ""},
		{"small-obj", []byte(`{"a":{}}`), ""},
		{"small-flat-obj", []byte(`{"a":1}`), ""},
		{"small-arrs", []byte(`[[],[]]`), ""},
		{"small-nested", []byte(`[{"a":{"b":[1]}},{}]`), ""},
		{"small-escape", []byte(`["` + "\\" + `n"]`), ""},
		{"ReadObject/small-obj", []byte(`{"a":{}}`), "ReadObject"},
		{"ReadArray/small-arrs", []byte(`[[1],{}]`), "ReadArray"},
		{"big-object", []byte(bigObject(n)), ""},
		{"big-object-in-array", []byte("[" + bigObject(n) + ",{}]"), ""},
		{"ReadArray/big-objects", []byte("[" + bigObject(n) + "," + bigObject(3) + "]"), "ReadArray"},
		{"ReadObject/big-object", []byte(`{"x":` + bigObject(n) + `,"y":{}}`), "ReadObject"},
		{"big-array", []byte(bigArray(n, "[1]")), ""},
		{"ReadArray/big-array", []byte("[" + bigArray(n, "1") + ",[2]]"), "ReadArray"},
		{"deep", []byte(rep("[", n) + rep("]", n)), ""},
		{"long-escaped-string", []byte(`["` + rep(`\n`, 10000) + `"]`), ""},
		{"error-eof", []byte(`[{"a":[1,`), ""},
		// failing and null documents: a size hint must not survive a failed read for ever
		{"error-array-eof", []byte(`[1,`), ""},
		{"error-array-syntax", []byte(`[1,x]`), ""},
		{"error-object-eof", []byte(`{"a":1,`), ""},
		{"ReadArray/error-array-eof", []byte(`[1,`), "ReadArray"},
		{"ReadArray/null", []byte(`null`), "ReadArray"},
		{"ReadObject/null", []byte(`null`), "ReadObject"},
		{"ReadObject/error-object-eof", []byte(`{"a":1,`), "ReadObject"},
		// large enough that one stale hint costs more than the per-call constant
		{"huge-array", []byte(bigArray(40000, "1")), ""},
		{"ReadArray/huge-array", []byte(bigArray(40000, "1")), "ReadArray"},
		{"huge-object", []byte(bigObject(20000)), ""},
		{"ReadObject/huge-object", []byte(bigObject(20000)), "ReadObject"},
	}
	if thorough {
		ops = append(ops, costOp{"big-object-8000", []byte(bigObject(8000)), ""}, costOp{"deep-objects", []byte(rep(`{"a":`, n) + "1" + rep("}", n)), ""})
	}
	return ops
}

type costEdge struct {
	from, to int
	op       int
	w        int64 // alloc - c*len - c'
	alloc    uint64
	hist     []int
}

func c20CostGraph(r *eng.Run) {
	ops := costAlphabet(r.Thorough())
	replay := func(hist []int, last int) (key string, alloc uint64) {
		vr := &rjson.ValueReader{}
		for _, h := range hist {
			ops[h].apply(vr)
		}
		if last >= 0 {
			alloc = allocDuring(func() { ops[last].apply(vr) })
		}
		k, ok := readerKey(vr)
		if !ok {
			k = fmt.Sprint(hist, last)
		}
		return k, alloc
	}
	ids := map[string]int{}
	var witness [][]int  // shortest history per state
	var witness2 [][]int // most recently found history per state
	k0, _ := replay(nil, -1)
	ids[k0] = 0
	witness = append(witness, nil)
	witness2 = append(witness2, nil)
	var edges []costEdge
	maxStates := r.Pick(150, 1500)
	maxDepth := r.Pick(4, 6)
	closed := true
	for s := 0; s < len(witness); s++ {
		hist := witness[s]
		for op := range ops {
			k, alloc := replay(hist, op)
			to, ok := ids[k]
			if !ok {
				if len(ids) >= maxStates || len(hist)+1 >= maxDepth {
					closed = false
					continue
				}
				to = len(witness)
				ids[k] = to
				witness = append(witness, append(append([]int(nil), hist...), op))
				witness2 = append(witness2, append(append([]int(nil), hist...), op))
			} else {
				witness2[to] = append(append([]int(nil), hist...), op)
			}
			w := int64(alloc) - int64(c20PerByte*len(ops[op].doc)) - c20PerCall
			edges = append(edges, costEdge{from: s, to: to, op: op, w: w, alloc: alloc, hist: hist})
		}
	}
	// determinism of the labelling: re-measure every edge from the second witness of its source
	inconsistent := 0
	for i := range edges {
		e := &edges[i]
		h2 := witness2[e.from]
		if fmt.Sprint(h2) == fmt.Sprint(e.hist) {
			continue
		}
		_, a2 := replay(h2, e.op)
		d := int64(a2) - int64(e.alloc)
		if d < 0 {
			d = -d
		}
		if d > int64(e.alloc)/20+256 {
			inconsistent++
			if inconsistent <= 3 {
				r.Note("cost of %s differs between two histories reaching the same canonical state: %d vs %d bytes (%v / %v)", ops[e.op].name, e.alloc, a2, e.hist, h2)
			}
			if a2 > e.alloc {
				e.alloc = a2
				e.w = int64(a2) - int64(c20PerByte*len(ops[e.op].doc)) - c20PerCall
			}
		}
	}
	// longest walk from the initial state (Bellman-Ford, maximising)
	const negInf = int64(-1) << 62
	dist := make([]int64, len(witness))
	pred := make([]int, len(witness))
	for i := range dist {
		dist[i] = negInf
		pred[i] = -1
	}
	dist[0] = 0
	improved := false
	for it := 0; it <= len(witness); it++ {
		improved = false
		for i, e := range edges {
			if dist[e.from] == negInf {
				continue
			}
			if d := dist[e.from] + e.w; d > dist[e.to] {
				dist[e.to] = d
				pred[e.to] = i
				improved = true
			}
		}
		if !improved {
			break
		}
	}
	maxW, maxAt := int64(0), 0
	for i, d := range dist {
		if d > maxW {
			maxW, maxAt = d, i
		}
	}
	names := func(h []int) []string {
		var o []string
		for _, x := range h {
			o = append(o, ops[x].name)
		}
		return o
	}
	if improved {
		// a positive cycle is reachable: find an edge on it for the report
		var worst costEdge
		for _, e := range edges {
			if e.from == e.to && e.w > worst.w {
				worst = e
			}
		}
		desc := "a positive-weight cycle is reachable from the initial state"
		sig := "unbounded/positive-cycle"
		hist := names(worst.hist)
		if worst.w > 0 {
			desc = fmt.Sprintf("after %v every further %s (%d bytes) allocates %d bytes", names(worst.hist), ops[worst.op].name, len(ops[worst.op].doc), worst.alloc)
			sig = "unbounded/after-" + lastName(names(worst.hist)) + "/each-" + ops[worst.op].name
		}
		r.Violation(eng.Replay{Engine: "costgraph", Entry: "ValueReader.ReadValue", Sig: sig, History: hist, Expected: "no call sequence whose cumulative allocation exceeds c*len + c'*calls without bound", Got: desc,
			Extra: map[string]interface{}{"family": "costgraph"}})
	} else if maxW > 0 {
		var walk []string
		for v := maxAt; pred[v] >= 0; v = edges[pred[v]].from {
			walk = append([]string{ops[edges[pred[v]].op].name}, walk...)
			if len(walk) > 20 {
				break
			}
		}
		r.Violation(eng.Replay{Engine: "costgraph", Entry: "ValueReader.ReadValue", Sig: "prefix-over-bound/" + strings.Join(walk, ","), History: walk, Expected: "cumulative allocation <= c*len + c'*calls on every prefix", Got: fmt.Sprintf("history exceeds the bound by %d bytes", maxW),
			Extra: map[string]interface{}{"family": "costgraph"}})
	}
	posEdges := 0
	for _, e := range edges {
		if e.w > 0 {
			posEdges++
		}
	}
	r.Set("states", len(witness))
	r.Set("transitions", len(edges))
	r.Set("traces_validated_against_impl", len(edges))
	r.Set("costgraph_closed", closed)
	r.Set("costgraph_positive_weight_edges", posEdges)
	r.Set("costgraph_max_walk_weight", maxW)
	r.Set("costgraph_inconsistent_labels", inconsistent)
	r.Set("costgraph_ops", len(ops))
	r.Add("evaluations", len(edges))
	r.Add("distinct_nontrivial", len(witness))
	if !closed {
		r.Inexhaustive(fmt.Sprintf("cost graph not closed within %d states / depth %d: the longest-walk verdict covers the explored part", len(witness), maxDepth))
	}
	if inconsistent > 0 {
		r.Inexhaustive(fmt.Sprintf("%d transitions cost differently from two histories reaching the same canonical state (key too coarse for cost); the larger cost was used", inconsistent))
	}
	r.Sample(map[string]interface{}{"kind": "history", "ops": []string{"big-object", "small-obj", "small-obj", "small-obj"}, "weight": "alloc - 1024*len - 65536 per call"})
}

func lastName(h []string) string {
	if len(h) == 0 {
		return "init"
	}
	return h[len(h)-1]
}
