package props

import (
	"bytes"
	"context"
	"errors"
	"fmt"
	"io"
	"math"
	"os"
	"unsafe"

	"github.com/willabides/rjson"

	"verifharness/eng"
	"verifharness/ref"
)

func init() {
	Registry["C07"] = func(r *eng.Run) { handlerProps(r, "C07") }
	Registry["C09"] = func(r *eng.Run) { handlerProps(r, "C09") }
	Registry["C10"] = c10
	for _, id := range []string{"C07", "C09", "C10"} {
		id := id
		Replayers[id+"/handler"] = func(rp *eng.Replay) (bool, string) { return replayHandler(id, rp) }
	}
	Replayers["C10"] = func(rp *eng.Replay) (bool, string) {
		switch rp.Engine {
		case "scale", "watchdog":
			return false, "scale / watchdog findings are re-checked by running ./check C10 (subprocess)"
		}
		return replayHostile(rp)
	}
}

// hcall is one observed handler invocation.
type hcall struct {
	off    int    // offset of data within the document
	key    []byte // raw key bytes (objects)
	keyOff int
	suffix bool // data was exactly the document's suffix at off
}

// offsetIn returns the offset of slice s inside w (s must alias w), or -1.
func offsetIn(w, s []byte) int {
	if len(w) == 0 {
		return -1
	}
	base := uintptr(unsafe.Pointer(&w[0]))
	var p uintptr
	if len(s) > 0 {
		p = uintptr(unsafe.Pointer(&s[0]))
	} else if cap(s) > 0 {
		p = uintptr(unsafe.Pointer(&s[:1][0]))
	} else {
		return -1
	}
	if p < base || p > base+uintptr(len(w)) {
		return -1
	}
	return int(p - base)
}

// answer is what a scripted handler does at one call.
type answer struct {
	mode int // 0 decline (return 0), 1 exact end offset, 2 fixed integer, 3 error with integer
	n    int
	err  error
}

// traverse runs HandleArrayValues / HandleObjectValues (kind '[' / '{') on w with a handler that
// asks `decide` what to do at each call, and records the calls.
func traverse(kind byte, w []byte, buf *rjson.Buffer, decide func(i int, data []byte) answer) (calls []hcall, p int, err error) {
	act := func(key, data []byte) (int, error) {
		c := hcall{off: offsetIn(w, data)}
		c.suffix = c.off >= 0 && c.off+len(data) == len(w)
		if key != nil || kind == '{' {
			c.key = append([]byte{}, key...)
			c.keyOff = offsetIn(w, key)
		}
		i := len(calls)
		calls = append(calls, c)
		a := decide(i, data)
		switch a.mode {
		case 0:
			return 0, nil
		case 1:
			ok, end := ref.Run(data).FirstValue()
			if !ok {
				return 0, errMemberMalformed
			}
			return end, nil
		case 2:
			return a.n, nil
		default:
			return a.n, a.err
		}
	}
	if kind == '[' {
		p, err = rjson.HandleArrayValues(w, rjson.ArrayValueHandlerFunc(func(data []byte) (int, error) { return act(nil, data) }), buf)
	} else {
		p, err = rjson.HandleObjectValues(w, rjson.ObjectValueHandlerFunc(func(key, data []byte) (int, error) { return act(key, data) }), buf)
	}
	return calls, p, err
}

var errMemberMalformed = errors.New("handler: member is not a complete well-formed value")

func entryOf(kind byte) string {
	if kind == '[' {
		return "HandleArrayValues"
	}
	return "HandleObjectValues"
}

// checkTraversal is C07's oracle for one (input, strategy vector): strategy[i]==1 means "exact
// offset" at call i, else decline.
func checkTraversal(kind byte, w []byte, buf *rjson.Buffer, choose func(n int) int) (bad, exp, got string) {
	ms, end, ok, isNull := ref.Members(w, kind)
	calls, p, err := traverse(kind, w, buf, func(i int, data []byte) answer { return answer{mode: choose(2)} })
	if isNull {
		if err != nil || p != end || len(calls) != 0 {
			return "null", fmt.Sprintf("p=%d nil, 0 calls", end), fmt.Sprintf("p=%d %s, %d calls", p, errStr(err), len(calls))
		}
		return "", "", ""
	}
	if !ok {
		if err == nil {
			return "accepts-malformed", "error (first value is not a well-formed " + string(kind) + " value or null)", fmt.Sprintf("p=%d nil after %d calls", p, len(calls))
		}
		return "", "", ""
	}
	if err != nil {
		return "rejects-wellformed", fmt.Sprintf("p=%d nil", end), errStr(err)
	}
	if p != end {
		return "offset", fmt.Sprintf("p=%d", end), fmt.Sprintf("p=%d", p)
	}
	if len(calls) != len(ms) {
		return "call-count", fmt.Sprintf("%d calls", len(ms)), fmt.Sprintf("%d calls", len(calls))
	}
	for i, m := range ms {
		c := calls[i]
		if c.off != m.Start || !c.suffix {
			return fmt.Sprintf("call-%d-data", i), fmt.Sprintf("data = document[%d:]", m.Start), fmt.Sprintf("data at offset %d (suffix=%v)", c.off, c.suffix)
		}
		if kind == '{' {
			if !bytes.Equal(c.key, w[m.KeyStart:m.KeyEnd]) {
				return fmt.Sprintf("call-%d-key", i), fmt.Sprintf("key %q", w[m.KeyStart:m.KeyEnd]), fmt.Sprintf("key %q", c.key)
			}
		}
	}
	return "", "", ""
}

// handlerNodes generates the E1 node set for the handler machines (decline-all handler: the
// machine is then a pure byte automaton) and calls perNode on every node.
func handlerNodes(r *eng.Run, kind byte, D, K, maxStates int, perNode func(w []byte, a *ref.PDA, nCalls int)) e1Result {
	return handlerNodesPump(r, kind, D, K, maxStates, false, perNode)
}

func handlerNodesPump(r *eng.Run, kind byte, D, K, maxStates int, pump bool, perNode func(w []byte, a *ref.PDA, nCalls int)) e1Result {
	sp := e1Spec{
		entry: entryOf(kind),
		probe: func(w []byte) {
			traverse(kind, w, nil, func(int, []byte) answer { return answer{} })
		},
		check: func(w []byte, a *ref.PDA) (string, bool, string, string) {
			n := 0
			traverse(kind, w, nil, func(int, []byte) answer { n++; return answer{} })
			perNode(w, a, n)
			return "", false, "", ""
		},
		alive: func(w []byte, a *ref.PDA) bool {
			// only documents whose first token can still be the right kind (or null)
			i := 0
			for i < len(w) && ref.IsWS(w[i]) {
				i++
			}
			if i < len(w) && w[i] != kind && w[i] != 'n' {
				return false
			}
			return a.Alive() && a.Phase != ref.PDone
		},
		noPump: !pump,
	}
	if !r.Thorough() {
		// every pumped node runs all strategy vectors: keep the quick tier at 8-byte block lengths
		sp.pumpN, sp.pumpTail = 9, 8
	}
	return runE1(r, sp, D, K, maxStates)
}

func handlerProps(r *eng.Run, id string) {
	D := r.Pick(2, 3)
	K := 1
	var results []e1Result
	execs, complete, incomplete, maxPts := 0, 0, 0, 0
	sentinel := errors.New("sentinel stop")
	for _, kind := range []byte{'[', '{'} {
		kind := kind
		res := handlerNodesPump(r, kind, D, K, r.Pick(150000, 1500000), id == "C07", func(w []byte, a *ref.PDA, nCalls int) {
			switch id {
			case "C07":
				st := eng.ExploreChoices(func(c *eng.Chooser) {
					bad, exp, got := checkTraversal(kind, w, nil, c.Choose)
					if bad != "" {
						r.Violation(eng.Replay{Engine: "handler", Entry: entryOf(kind), Sig: bad + "/" + shortSig(w), InputB64: append([]byte(nil), w...), Choices: append([]int(nil), c.Trace...), Expected: exp, Got: got, Extra: map[string]interface{}{"kind": string(kind)}})
					}
				}, 6, 2)
				execs += st.Executions
				// the two uniform strategies again with a reused Buffer that earlier grew beyond
				// the depth limit (the handler machines have no depth limit of their own)
				for _, mode := range []int{0, 1} {
					mode := mode
					if bad, exp, got := checkTraversal(kind, w, giantBuffer(), func(int) int { return mode }); bad != "" {
						r.Violation(eng.Replay{Engine: "handler", Entry: entryOf(kind), Sig: "giant-buffer/" + bad + "/" + shortSig(w), InputB64: append([]byte(nil), w...), Choices: []int{mode, mode, mode, mode, mode, mode, mode, mode}, Expected: exp, Got: got, Extra: map[string]interface{}{"kind": string(kind), "buffer": "giant"}})
					}
					execs++
				}
				for pi, prime := range bufferPrimers {
					if ok, _ := a.FirstValue(); !ok {
						break // only a complete first value can be "known" to a Buffer; stale state after failures is C14's
					}
					for _, mode := range []int{0, 1} {
						mode := mode
						buf := &rjson.Buffer{}
						prime(w, buf)
						if bad, exp, got := checkTraversal(kind, w, buf, func(int) int { return mode }); bad != "" {
							r.Violation(eng.Replay{Engine: "handler", Entry: entryOf(kind), Sig: fmt.Sprintf("buffer-primed-on-same-slice#%d/", pi) + bad + "/" + shortSig(w), InputB64: append([]byte(nil), w...), Choices: []int{mode, mode, mode, mode, mode, mode, mode, mode}, Expected: exp, Got: got, Extra: map[string]interface{}{"kind": string(kind), "buffer": "primed"}})
						}
						execs++
					}
				}
				if st.Complete {
					complete++
				} else {
					incomplete++
				}
				if st.MaxPoints > maxPts {
					maxPts = st.MaxPoints
				}
			case "C09":
				execs += checkErrorStop(r, kind, w, nCalls, sentinel)
			}
		})
		results = append(results, res)
	}
	// E2 breadth: containers with up to N member nodes (more calls per traversal than the
	// shortest-witness nodes of the BFS have), their whitespace variants and corruptions
	docExecs, docTexts := 0, 0
	{
		N := r.Pick(4, 5)
		ds := eng.GenDocs(N, []string{"null", "true", "-1.5e1", `"a` + "\\" + `n"`}, []string{`"k"`, `"` + U("006b") + "\\" + `t"`})
		var texts []string
		for n := 2; n <= N; n++ {
			texts = append(texts, ds.BySize[n]...)
		}
		run := func(text string) {
			w := eng.Exact([]byte(text))
			kind := byte(0)
			for _, b := range w {
				if b == '[' || b == '{' {
					kind = b
					break
				}
				if !ref.IsWS(b) {
					break
				}
			}
			if kind == 0 {
				kind = '['
			}
			docTexts++
			n := 0
			eng.Beat(w)
			if pan := guard(func() { traverse(kind, w, nil, func(int, []byte) answer { n++; return answer{} }) }); pan != "" {
				r.Violation(eng.Replay{Engine: "handler", Entry: entryOf(kind), Sig: "panic/doc/" + shortSig(w), InputB64: w, Choices: []int{0, 0, 0, 0, 0, 0, 0, 0}, Expected: "returns normally", Got: "panic: " + pan, Extra: map[string]interface{}{"kind": string(kind)}})
				return
			}
			switch id {
			case "C07":
				st := eng.ExploreChoices(func(c *eng.Chooser) {
					bad, exp, got := checkTraversal(kind, w, nil, c.Choose)
					if bad != "" {
						r.Violation(eng.Replay{Engine: "handler", Entry: entryOf(kind), Sig: bad + "/doc/" + shortSig(w), InputB64: w, Choices: append([]int(nil), c.Trace...), Expected: exp, Got: got, Extra: map[string]interface{}{"kind": string(kind)}})
					}
				}, 6, 2)
				docExecs += st.Executions
				if st.MaxPoints > maxPts {
					maxPts = st.MaxPoints
				}
			case "C09":
				docExecs += checkErrorStop(r, kind, w, n, sentinel)
			}
		}
		for _, t := range texts {
			run(t)
			run(eng.Style(t, 2))
		}
		for _, t := range ds.BySize[3] {
			eng.Corruptions(t, corruptAlpha, func(s string) { run(s) })
		}
		// every push site of the machines at every stack size up to 70 levels
		for _, t := range depthSiteFamily(70) {
			run(string(t))
		}
	}
	execs += docExecs
	r.Set("e2_document_texts", docTexts)
	r.Set("e2_document_executions", docExecs)
	e1Evidence(r, D, K, results...)
	coverageReport(r, "handleArrayValues", "handleObjectValues")
	r.Set("strategy_executions", execs)
	r.Add("evaluations", execs)
	if id == "C07" {
		r.Set("nodes_with_all_strategy_vectors", complete)
		r.Set("nodes_with_deviation_bounded_vectors", incomplete)
		r.Set("max_handler_calls_per_node", maxPts)
		r.Set("rule", e1Rule+" Nodes are generated with the decline-all handler; at every node the choice explorer runs every {decline, exact offset} answer vector (complete for <= 6 calls, else <= 2 deviations). Oracle: reference traversal (member start offsets, raw key bytes, final offset); success iff the first value is a well-formed array/object or null.")
		r.Sample(map[string]interface{}{"kind": "node+strategy", "input": `{"a":[1],"b\n":"x"`, "strategy": []int{1, 0}, "note": "handler returns the exact end of [1] at call 0 and declines call 1"})
	} else {
		r.Set("rule", e1Rule+" At every node with k handler calls: for every call index i < k and every accompanying offset from the menu {MinInt, -1, 0, 1, exact, remaining, remaining+1, MaxInt} the handler returns a sentinel error at call i (earlier calls: decline-all and exact-all). Oracle: returned error is identical to the sentinel and exactly i+1 calls were made.")
		r.Sample(map[string]interface{}{"kind": "node+failing-call", "input": `[1,"x",[2]`, "failing_call": 2, "accompanying_offset": "MaxInt"})
	}
	r.Assume("nesting bound D for node generation; handlers are the scripted families described in rule")
}

// checkErrorStop is C09's oracle on one node: returns executions.
// sliceErr is an error whose dynamic type is not hashable (using it as a map key panics).
type sliceErr []int

func (sliceErr) Error() string { return "slice-typed error" }

type typedNilErr struct{}

func (*typedNilErr) Error() string { return "typed nil error" }

// errorVariants are the error values a handler may return: a plain sentinel, a non-nil error
// interface holding a nil pointer, and an error value obtained from the library itself.
func errorVariants(sentinel error) []error {
	var tn *typedNilErr
	_, libErr := rjson.SkipValue([]byte(`[1,[2,3`), nil)
	_, libErr2 := rjson.SkipValue([]byte(`{"a":}`), nil)
	// well-known sentinels of the standard library (a handler that reads from a stream returns
	// these) and a wrapped one
	return []error{sentinel, tn, libErr, libErr2, sliceErr{1, 2}, io.EOF, io.ErrUnexpectedEOF, context.Canceled, os.ErrNotExist, fmt.Errorf("wrapped: %w", io.EOF)}
}

// c09Full decides whether the full matrix (all offsets, both base strategies, all error kinds) runs
// on a node: once per class of node (reference state, class of the last byte, number of calls);
// every node gets the reduced matrix (plain sentinel, decline-all base, offsets exact and MaxInt).
var c09Seen = map[string]bool{}

func checkErrorStop(r *eng.Run, kind byte, w []byte, nCalls int, sentinel0 error) int {
	n := 0
	// a class is (reference state, last byte class, number of calls, kinds of the first 8 members)
	kinds := make([]byte, 0, 8)
	if nCalls > 0 {
		traverse(kind, w, nil, func(i int, data []byte) answer {
			if len(data) > 0 && len(kinds) < 8 {
				kinds = append(kinds, data[0])
			}
			return answer{}
		})
	}
	cls := fmt.Sprintf("%c|%s|%s|%d|%s", kind, ref.Run(w).Key(), eng.ClassSuffix(w, 1), nCalls, kinds)
	full := !c09Seen[cls]
	c09Seen[cls] = true
	for vi, sentinel := range errorVariants(sentinel0) {
		if !full {
			break
		}
		if vi > 0 && nCalls > 0 {
			// the other error kinds: every failing call index with the exact offset only
			for k := 0; k < nCalls && k < 8; k++ {
				var calls []hcall
				var err error
				same := false
				var buf *rjson.Buffer
				if _, unhashable := sentinel.(sliceErr); unhashable {
					if k != 0 && k != nCalls-1 {
						continue
					}
					// a Buffer that has been used on a deep document before (large stack)
					buf = deepUsedBuffer()
				}
				pan := guard(func() {
					calls, _, err = traverse(kind, w, buf, func(i int, data []byte) answer {
						if i == k {
							_, exact := ref.Run(data).FirstValue()
							return answer{mode: 3, n: exact, err: sentinel}
						}
						return answer{mode: 0}
					})
					same = sameErr(err, sentinel)
				})
				n++
				if pan != "" {
					r.Violation(eng.Replay{Engine: "handler", Entry: entryOf(kind), Sig: fmt.Sprintf("error-stop/panic/variant#%d/%s", vi, shortSig(w)), InputB64: append([]byte(nil), w...),
						Expected: "the handler's error returned", Got: "panic: " + pan, Extra: map[string]interface{}{"kind": string(kind), "k": k, "variant": vi}})
					continue
				}
				if !same || len(calls) != k+1 {
					r.Violation(eng.Replay{Engine: "handler", Entry: entryOf(kind), Sig: fmt.Sprintf("error-stop/variant#%d/k=%d/%s", vi, k, shortSig(w)), InputB64: append([]byte(nil), w...),
						Expected: fmt.Sprintf("the handler's own error value (%T) itself, %d handler calls", sentinel, k+1), Got: fmt.Sprintf("%s (identical=%v), %d calls", errStr(err), same, len(calls)),
						Extra: map[string]interface{}{"kind": string(kind), "k": k, "variant": vi}})
				}
			}
		}
	}
	if full && nCalls > 0 {
		// the handler first runs a nested traversal / skip on the SAME Buffer that fails with an
		// error of its own, then returns a different error: that one must come back
		inner := errors.New("inner failure")
		outer := errors.New("outer error (wraps context)")
		for k := 0; k < nCalls && k < 4; k++ {
			buf := &rjson.Buffer{}
			made := 0
			_, _, err := traverse(kind, w, buf, func(i int, data []byte) answer {
				made = i + 1
				if i != k {
					return answer{mode: 0}
				}
				rjson.HandleArrayValues([]byte(`[1,[2],3]`), rjson.ArrayValueHandlerFunc(func([]byte) (int, error) { return 0, inner }), buf)
				rjson.HandleObjectValues([]byte(`{"a":{"b":1}}`), rjson.ObjectValueHandlerFunc(func(_, _ []byte) (int, error) { return 0, inner }), buf)
				rjson.SkipValue([]byte(`[1,`), buf)
				return answer{mode: 3, n: 0, err: outer}
			})
			n++
			if err != outer || made != k+1 {
				r.Violation(eng.Replay{Engine: "handler", Entry: entryOf(kind), Sig: fmt.Sprintf("error-stop/nested-failure-on-same-buffer/k=%d/%s", k, shortSig(w)), InputB64: append([]byte(nil), w...),
					Expected: fmt.Sprintf("the outer handler's own error, %d calls", k+1), Got: fmt.Sprintf("%s (identical=%v), %d calls", errStr(err), err == outer, made),
					Extra: map[string]interface{}{"kind": string(kind), "k": k}})
			}
		}
	}
	primed := full && nCalls > 0
	if primed {
		// a Buffer that has just been used on this very slice by another entry point (validate
		// first, then traverse: anything the Buffer remembers about the slice must not change what
		// happens to the handler's error)
		for pi, prime := range bufferPrimers {
			for k := 0; k < nCalls && k < 4; k++ {
				for _, exactOff := range []bool{false, true} {
					buf := &rjson.Buffer{}
					prime(w, buf)
					calls, _, err := traverse(kind, w, buf, func(i int, data []byte) answer {
						if i != k {
							return answer{mode: 0}
						}
						off := 0
						if exactOff {
							_, off = ref.Run(data).FirstValue()
						}
						return answer{mode: 3, n: off, err: sentinel0}
					})
					n++
					if err != sentinel0 || len(calls) != k+1 {
						r.Violation(eng.Replay{Engine: "handler", Entry: entryOf(kind), Sig: fmt.Sprintf("error-stop/buffer-primed-on-same-slice#%d/k=%d/%s", pi, k, shortSig(w)), InputB64: append([]byte(nil), w...),
							Expected: fmt.Sprintf("the sentinel error itself, %d handler calls", k+1), Got: fmt.Sprintf("%s (identical=%v), %d calls", errStr(err), err == sentinel0, len(calls)),
							Extra: map[string]interface{}{"kind": string(kind), "k": k, "primer": pi}})
					}
				}
			}
		}
	}
	sentinel := sentinel0
	for k := 0; k < nCalls && k < 8; k++ {
		for _, base := range []int{0, 1} {
			if !full && base == 1 {
				continue
			}
			for oi := 0; oi < 8; oi++ {
				if !full && oi != 4 && oi != 7 {
					continue
				}
				var made int
				var off int
				calls, p, err := traverse(kind, w, nil, func(i int, data []byte) answer {
					made = i + 1
					if i < k {
						return answer{mode: base}
					}
					if i > k {
						return answer{mode: 0}
					}
					_, exact := ref.Run(data).FirstValue()
					off = []int{math.MinInt, -1, 0, 1, exact, len(data), len(data) + 1, math.MaxInt}[oi]
					return answer{mode: 3, n: off, err: sentinel}
				})
				n++
				if base == 1 && made <= k {
					// an earlier "exact" call met a malformed member and returned its own error
					continue
				}
				_ = p
				if err != sentinel || len(calls) != k+1 {
					r.Violation(eng.Replay{Engine: "handler", Entry: entryOf(kind), Sig: fmt.Sprintf("error-stop/k=%d/off#%d/%s", k, oi, shortSig(w)), InputB64: append([]byte(nil), w...),
						Expected: fmt.Sprintf("the sentinel error itself, %d handler calls", k+1), Got: fmt.Sprintf("%s (identical=%v), %d calls", errStr(err), err == sentinel, len(calls)),
						Extra: map[string]interface{}{"kind": string(kind), "k": k, "base": base, "off_index": oi}})
				}
			}
		}
	}
	return n
}

// bufferPrimers use a Buffer on a slice through each other entry point before the call under test
// sees the same Buffer and the same slice.
var bufferPrimers = []func(w []byte, b *rjson.Buffer){
	func(w []byte, b *rjson.Buffer) { rjson.Valid(w, b) },
	func(w []byte, b *rjson.Buffer) { rjson.SkipValue(w, b) },
	func(w []byte, b *rjson.Buffer) { rjson.SkipValueFast(w, b) },
	func(w []byte, b *rjson.Buffer) {
		rjson.HandleArrayValues(w, rjson.ArrayValueHandlerFunc(func([]byte) (int, error) { return 0, nil }), b)
		rjson.HandleObjectValues(w, rjson.ObjectValueHandlerFunc(func(_, _ []byte) (int, error) { return 0, nil }), b)
	},
}

func replayHandler(id string, rp *eng.Replay) (bool, string) {
	kind := byte('[')
	if k, _ := rp.Extra["kind"].(string); k == "{" {
		kind = '{'
	}
	w := rp.InputB64
	switch id {
	case "C07":
		var bad, exp, got string
		pan := guard(func() {
			if b, _ := rp.Extra["buffer"].(string); b == "giant" {
				mode := 0
				if len(rp.Choices) > 0 {
					mode = rp.Choices[0]
				}
				bad, exp, got = checkTraversal(kind, w, giantBuffer(), func(int) int { return mode })
				return
			}
			eng.ReplayChoices(func(c *eng.Chooser) { bad, exp, got = checkTraversal(kind, w, nil, c.Choose) }, rp.Choices)
		})
		if pan != "" {
			return true, "panic: " + pan
		}
		return bad != "", fmt.Sprintf("%s expected %s got %s", bad, exp, got)
	case "C09":
		sentinel := errors.New("sentinel stop")
		r := eng.NewRun("C09", "quick", 0, "/dev/null", "/dev/null", "/dev/null")
		n := 0
		traverse(kind, w, nil, func(int, []byte) answer { n++; return answer{} })
		checkErrorStop(r, kind, w, n, sentinel)
		return r.Violations() > 0, fmt.Sprintf("%d violations on this input", r.Violations())
	}
	return replayHostile(rp)
}

// sameErr compares error identity without panicking on unhashable / uncomparable dynamic types.
func sameErr(a, b error) (same bool) {
	defer func() {
		if recover() != nil {
			// both hold the same uncomparable dynamic type: compare by formatted value
			same = fmt.Sprintf("%T%v", a, a) == fmt.Sprintf("%T%v", b, b)
		}
	}()
	return a == b
}

var deep300 = append(bytes.Repeat([]byte("["), 300), bytes.Repeat([]byte("]"), 300)...)

// deepUsedBuffer returns a new Buffer whose stack has been grown by a 300-deep document.
func deepUsedBuffer() *rjson.Buffer {
	b := &rjson.Buffer{}
	rjson.Valid(deep300, b)
	return b
}
