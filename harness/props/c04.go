package props

import (
	"fmt"
	"math"
	"math/big"
	"os"
	"strconv"
	"strings"
	"sync"
	"sync/atomic"

	"github.com/willabides/rjson"

	"verifharness/eng"
	"verifharness/ref"
)

func init() {
	Registry["C04"] = c04
	Replayers["C04"] = func(rp *eng.Replay) (bool, string) {
		bad, _, exp, got := checkFloat(rp.InputB64, nil)
		return bad != "", fmt.Sprintf("%s expected %s got %s", bad, exp, got)
	}
}

var stdDeviations int64 // literals on which strconv.ParseFloat is not the exactly rounded value

func fdesc(f float64) string { return fmt.Sprintf("%v(%#x)", f, math.Float64bits(f)) }

// floatOracle returns the correctly rounded value of a number token. The deciding oracle is
// exact rational rounding; strconv.ParseFloat is consulted as the oracle the property names and
// deviations between the two are counted (strconv misplaces the decimal point of literals with
// more than 800 significant digits and no '.', see DESIGN.md).
func floatOracle(tok string) (f float64, overflow bool) {
	sf, serr := strconv.ParseFloat(tok, 64)
	sov := serr != nil
	// exact rounding is costly for extreme exponents; strconv and big agree there by range
	// arguments, so the exact computation is skipped when |exp| is huge
	if e := expOf(tok); e > 5000 || e < -5000 {
		return sf, sov
	}
	ef, eov, ok := ref.RoundExact(tok)
	if !ok {
		return sf, sov
	}
	if eov != sov || (!eov && math.Float64bits(ef) != math.Float64bits(sf)) {
		atomic.AddInt64(&stdDeviations, 1)
	}
	return ef, eov
}

func expOf(tok string) int {
	i := strings.IndexAny(tok, "eE")
	if i < 0 {
		return 0
	}
	e, err := strconv.Atoi(tok[i+1:])
	if err != nil {
		if strings.HasPrefix(tok[i+1:], "-") {
			return -1 << 30
		}
		return 1 << 30
	}
	return e
}

// checkFloat compares ReadFloat64 / DecodeFloat64 / ReadValue on w with the oracle.
func checkFloat(w []byte, _ *ref.PDA) (string, bool, string, string) {
	s, e, _, ok := ref.NumberToken(w)
	got, p, err := rjson.ReadFloat64(w)
	if !ok {
		if err == nil {
			return "ReadFloat64/accepts", false, "error (first token is not a complete number)", fmt.Sprintf("%s p=%d", fdesc(got), p)
		}
		return "", false, "", ""
	}
	want, ov := floatOracle(string(w[s:e]))
	if ov {
		if err == nil {
			return "ReadFloat64/overflow", false, "error (magnitude exceeds MaxFloat64)", fmt.Sprintf("%s p=%d", fdesc(got), p)
		}
		return "", false, "", ""
	}
	if err != nil || p != e || math.Float64bits(got) != math.Float64bits(want) {
		return "ReadFloat64/value", false, fmt.Sprintf("%s p=%d", fdesc(want), e), fmt.Sprintf("%s p=%d %s", fdesc(got), p, errStr(err))
	}
	var tgt float64 = 3.5
	dp, derr := rjson.DecodeFloat64(w, &tgt)
	if derr != nil || dp != e || math.Float64bits(tgt) != math.Float64bits(want) {
		return "DecodeFloat64/value", false, fmt.Sprintf("%s p=%d", fdesc(want), e), fmt.Sprintf("%s p=%d %s", fdesc(tgt), dp, errStr(derr))
	}
	v, vp, verr := rjson.ReadValue(w)
	vf, isf := v.(float64)
	if verr != nil || vp != e || !isf || math.Float64bits(vf) != math.Float64bits(want) {
		return "ReadValue/number", false, fmt.Sprintf("%s p=%d", fdesc(want), e), fmt.Sprintf("%v p=%d %s", v, vp, errStr(verr))
	}
	return "", false, "", ""
}

func c04(r *eng.Run) {
	r.Level = "exploration"
	K := r.Pick(1, 2)
	sp := e1Spec{
		entry:       "ReadFloat64",
		handWritten: true,
		check:       checkFloat,
		digSat:      23,
		alive: func(w []byte, a *ref.PDA) bool {
			return a.Depth() == 0 && (a.Phase == ref.PTop || a.Phase == ref.PNum)
		},
		maxLen: 80,
	}
	res := runE1(r, sp, 0, K, 600000)
	e1Evidence(r, 0, K, res)
	c04Values(r)
	c04Audit(r)
	r.Set("strconv_deviations_from_exact_rounding", int(atomic.LoadInt64(&stdDeviations)))
	r.Set("rule", "E1 over the number-token automaton (exact digit counters to 23 in each digit run) x all 256 next bytes for ReadFloat64/DecodeFloat64/ReadValue: syntax, offset, value. E5 (complete finite families): all literals with <= k significant digits x all exponents in [-400,400] x forms; all 2046 binades + subnormals x boundary mantissas x {shortest, exact, exact halfway, halfway+-1, halfway truncated to 17..21 digits, zero-padded, >800 digits}; overflow/underflow thresholds; all 696 table rows x hard mantissas; audit of every table word against math/big. Oracle: exact rational rounding (math/big) and strconv.ParseFloat. distinct_nontrivial counts distinct literals.")
	r.Assume("correct rounding is decided only on the enumerated finite families; the table audit covers the Eisel-Lemire constants; all other literals are outside this check")
}

// c04Values is the E5 part.
func c04Values(r *eng.Run) {
	var evals int64
	var mu sync.Mutex
	famCount := map[string]int{}
	one := func(lit string, fam string) {
		atomic.AddInt64(&evals, 1)
		w := []byte(lit)
		var bad, exp, got string
		pan := guard(func() { bad, _, exp, got = checkFloat(w, nil) })
		if pan != "" {
			r.Violation(eng.Replay{Engine: "num", Entry: "ReadFloat64", Sig: "panic/" + fam + "/" + shortSig(w), InputB64: w, Expected: "returns normally", Got: "panic: " + pan})
			return
		}
		if bad != "" {
			sig := bad + "/" + fam + "/" + shortSig(w)
			if len(lit) > 800 && !strings.Contains(lit, ".") {
				sig = bad + "/" + fam + "/over-800-digits-no-dot"
			}
			r.Violation(eng.Replay{Engine: "num", Entry: "ReadFloat64", Sig: sig, InputB64: w, Expected: exp, Got: got})
		}
	}
	count := func(fam string, n int) {
		mu.Lock()
		famCount[fam] += n
		mu.Unlock()
	}
	// family 1: all literals d1..dk x 10^e
	k := r.Pick(3, 4)
	maxM := int(math.Pow10(k))
	eng.Parallel(maxM, func(m int) {
		ms := strconv.Itoa(m)
		n := 0
		for e := -400; e <= 400; e++ {
			es := strconv.Itoa(e)
			one(ms+"e"+es, "digits")
			one("-"+ms+"E"+es, "digits")
			n += 2
			if len(ms) > 1 {
				one(ms[:1]+"."+ms[1:]+"e"+es, "digits-dot")
				n++
			}
			if m%10 != 0 || m == 0 {
				one("0."+ms+"e"+es, "digits-frac")
				n++
			}
		}
		count("1:digits<=k x exponents", n)
	})
	if r.Thorough() {
		// 5-digit mantissas x exponents round the tier and range borders
		var exps []int
		for e := -345; e <= -295; e++ {
			exps = append(exps, e)
		}
		for e := -45; e <= 45; e++ {
			exps = append(exps, e)
		}
		for e := 270; e <= 312; e++ {
			exps = append(exps, e)
		}
		eng.Parallel(90000, func(i int) {
			ms := strconv.Itoa(10000 + i)
			n := 0
			for _, e := range exps {
				es := strconv.Itoa(e)
				one(ms+"e"+es, "digits5")
				one("-"+ms[:1]+"."+ms[1:]+"E"+es, "digits5")
				n += 2
			}
			count("1d:5-digit mantissas x border exponents", n)
		})
	}
	// family 1c: every (mantissa digit count 1..17, exponent -45..45) cell of the exact-arithmetic
	// tier and its borders, several mantissa patterns per digit count, both signs
	eng.Parallel(17, func(i int) {
		d := i + 1
		n := 0
		pats := []string{strings.Repeat("9", d), "1" + strings.Repeat("0", d-1), ("12345678901234567")[:d], ("98233876543219876")[:d], ("59584923123456789")[:d], "7" + strings.Repeat("3", d-1)}
		for _, m := range pats {
			for e := -45; e <= 45; e++ {
				es := strconv.Itoa(e)
				for _, sign := range []string{"", "-"} {
					one(sign+m+"e"+es, "exact-tier")
					n++
					if d > 1 {
						one(sign+m[:1]+"."+m[1:]+"E"+es, "exact-tier")
						n++
					}
				}
			}
		}
		count("1c:exact-tier cells", n)
	})
	// exponent fields of any length: leading zeros, and magnitudes far beyond int
	{
		n := 0
		for _, z := range []int{1, 5, 18, 19, 20, 31, 32, 33, 64, 100, 400} {
			for _, m := range []string{"1", "-1.5", "9007199254740993", "0"} {
				for _, lit := range []string{m + "e" + strings.Repeat("0", z) + "5", m + "E-" + strings.Repeat("0", z) + "12", m + "e+" + strings.Repeat("0", z), "0e" + strings.Repeat("9", z), "-0.0e-" + strings.Repeat("9", z)} {
					one(lit, "long-exponent")
					n++
				}
				// huge negative exponent: zero; huge positive with non-zero mantissa: range error (by the oracle)
				one(m+"e-"+strings.Repeat("9", z+3), "long-exponent")
				n++
			}
		}
		count("1g:long exponent fields", n)
	}
	// zeros: every spelling keeps the sign of zero
	{
		n := 0
		for z := 0; z <= 45; z++ {
			for _, e := range []string{"", "e0", "e5", "E-7", "e+400", "e-400"} {
				for _, sign := range []string{"", "-"} {
					lit := sign + "0"
					if z > 0 {
						lit += "." + strings.Repeat("0", z)
					}
					one(lit+e, "zero")
					n++
				}
			}
		}
		count("1e:zeros", n)
	}
	// very long zero runs with a compensating exponent: the value is a small exact number, so
	// the expectation is computed by hand (no oracle involved)
	{
		n := 0
		for _, Z := range []int{9990, 9999, 10000, 10001, 10400, 20000, 99998, 99999, 100000, 100001, 120000} {
			for _, d := range []string{"1", "5", "25"} {
				want, _ := strconv.ParseFloat(d, 64)
				cases := map[string]float64{
					"0." + strings.Repeat("0", Z) + d + "e" + strconv.Itoa(Z+len(d)): want,
					d + strings.Repeat("0", Z) + "e-" + strconv.Itoa(Z):              want,
					"-" + d + strings.Repeat("0", Z) + ".0E-" + strconv.Itoa(Z):      -want,
				}
				for lit, w := range cases {
					n++
					atomic.AddInt64(&evals, 1)
					got, p, err := rjson.ReadFloat64([]byte(lit))
					if err != nil || p != len(lit) || math.Float64bits(got) != math.Float64bits(w) {
						r.Violation(eng.Replay{Engine: "num", Entry: "ReadFloat64", Sig: fmt.Sprintf("ReadFloat64/value/zero-run-with-compensating-exponent/Z=%d", Z), InputB64: []byte(lit), Expected: fmt.Sprintf("%s p=%d", fdesc(w), len(lit)), Got: fmt.Sprintf("%s p=%d %s", fdesc(got), p, errStr(err))})
					}
				}
			}
		}
		count("1f:zero runs with compensating exponent", n)
	}
	// leading-zero fractions up to 25 zeros (the 19-digit counter counts leading zeros)
	eng.Parallel(26, func(z int) {
		n := 0
		for _, m := range []string{"1", "5", "9", "123456789", "1234567890123456789", "12345678901234567890", "99999999999999999999", "17976931348623157", "4503599627370497", "9007199254740993"} {
			for _, e := range []int{-330, -320, -308, -300, -25, -1, 0, 1, 22, 23, 100, 290, 308, 309, 330} {
				one("0."+strings.Repeat("0", z)+m+"e"+strconv.Itoa(e), "leading-zeros")
				one("0."+strings.Repeat("0", z)+m, "leading-zeros")
				n += 2
			}
		}
		count("1b:leading-zero fractions", n)
	})
	// digit strings round every power of five (the multiprecision fallback decides how many digits
	// a binary shift adds by comparing with the digits of 5^k): 5^k + {-2..2, 26, 27} behind 0..14
	// leading zeros, as a fraction and as an integer with a negative exponent
	eng.Parallel(60, func(i int) {
		k := i + 1
		p5 := new(big.Int).Exp(big.NewInt(5), big.NewInt(int64(k)), nil)
		n := 0
		for _, dl := range []int64{-2, -1, 0, 1, 2, 26, 27} {
			d := new(big.Int).Add(p5, big.NewInt(dl))
			if d.Sign() <= 0 {
				continue
			}
			ds := d.String()
			for z := 0; z <= 14; z++ {
				one("0."+strings.Repeat("0", z)+ds, "power-of-five-prefixes")
				one("-0."+strings.Repeat("0", z)+ds+"00000000000000000001", "power-of-five-prefixes")
				one(ds+"e-"+strconv.Itoa(z+len(ds)), "power-of-five-prefixes")
				n += 3
			}
		}
		count("1h:power-of-five digit prefixes", n)
	})
	// family 2: binades x boundary mantissas x textual variants
	mants := []uint64{0, 1, 2, 1 << 51, 1<<52 - 2, 1<<52 - 1, 0x5555555555555, 0xAAAAAAAAAAAAA}
	if !r.Thorough() {
		mants = []uint64{0, 1, 1<<52 - 1, 0x5555555555555}
	}
	step := r.Pick(1, 1)
	eng.Parallel(2047, func(be int) {
		if be%step != 0 {
			return
		}
		n := 0
		for _, m := range mants {
			bits := uint64(be)<<52 | m
			f := math.Float64frombits(bits)
			if f == 0 {
				continue
			}
			next := math.Float64frombits(bits + 1)
			one(strconv.FormatFloat(f, 'g', -1, 64), "shortest")
			one(strconv.FormatFloat(f, 'e', -1, 64), "shortest-e")
			n += 2
			bf := new(big.Float).SetPrec(2200).SetFloat64(f)
			exact := trimDec(bf.Text('f', 1080))
			one(exact, "exact")
			n++
			if math.IsInf(next, 0) {
				// halfway to overflow: MaxFloat64 + 1/2 ulp
				bn := new(big.Float).SetPrec(2200).SetMantExp(big.NewFloat(1), 1024)
				h := new(big.Float).SetPrec(2200).Add(bf, bn)
				h.Quo(h, big.NewFloat(2))
				hs := trimDec(h.Text('f', 1080))
				for _, v := range halfwayVariants(hs) {
					one(v, "overflow-threshold")
					n++
				}
				continue
			}
			bn := new(big.Float).SetPrec(2200).SetFloat64(next)
			h := new(big.Float).SetPrec(2200).Add(bf, bn)
			h.Quo(h, big.NewFloat(2))
			hs := trimDec(h.Text('f', 1080))
			for _, v := range halfwayVariants(hs) {
				one(v, "halfway")
				n++
			}
		}
		count("2:binades x mantissas x texts", n)
	})
	// underflow threshold: half of the smallest subnormal
	{
		h := new(big.Float).SetPrec(2200).SetMantExp(big.NewFloat(1), -1075)
		hs := trimDec(h.Text('f', 1080))
		n := 0
		for _, v := range halfwayVariants(hs) {
			one(v, "underflow-threshold")
			one("-"+v, "underflow-threshold")
			n += 2
		}
		count("3:thresholds", n)
	}
	// family 4: all 696 table rows x hard mantissas
	hard := []string{"1", "3", "7", "9", "9007199254740991", "9007199254740993", "1000000000000000000", "9999999999999999999", "9223372036854775808", "18446744073709551615",
		"4503599627370496", "4503599627370497", "6", "33", "123456789012345678", "2251799813685248", "1125899906842624"}
	eng.Parallel(696+60, func(i int) {
		q := i - 348 - 30
		n := 0
		for _, m := range hard {
			one(m+"e"+strconv.Itoa(q), "table-row")
			one("-"+m+"e"+strconv.Itoa(q), "table-row")
			n += 2
		}
		// small mantissas sweep per row (a wrong high table word misrounds about 1 in 200)
		for m := 1; m <= r.Pick(2000, 20000); m++ {
			one(strconv.Itoa(m)+"e"+strconv.Itoa(q), "table-row-sweep")
			n++
		}
		count("4:table rows x mantissas", n)
	})
	r.Add("evaluations", int(evals))
	r.Add("distinct_nontrivial", int(evals))
	r.Set("e5_families", famCount)
	r.Set("e5_literals", int(evals))
	r.Sample(map[string]interface{}{"kind": "halfway", "literal": "9007199254740993", "note": "exact halfway between 2^53 and 2^53+2: ties to even"})
	r.Sample(map[string]interface{}{"kind": "digits", "literal": "123e-400 .. 123e400", "forms": "123eN, 1.23eN, 0.123eN, both signs"})
}

// trimDec removes trailing zeros of a fixed-point decimal (and a trailing '.').
func trimDec(s string) string {
	if strings.Contains(s, ".") {
		s = strings.TrimRight(s, "0")
		s = strings.TrimSuffix(s, ".")
	}
	return s
}

// sigDigits truncates a plain decimal string to n significant digits (rounding toward zero),
// keeping its magnitude by zero filling the integer part.
func truncSig(s string, n int) string {
	var out []byte
	seen := 0
	started := false
	dot := false
	for i := 0; i < len(s); i++ {
		c := s[i]
		if c == '.' {
			dot = true
			out = append(out, c)
			continue
		}
		if c != '0' {
			started = true
		}
		if started {
			seen++
		}
		if started && seen > n {
			if dot {
				break
			}
			out = append(out, '0')
			continue
		}
		out = append(out, c)
	}
	return string(out)
}

// halfwayVariants returns the textual variants of an exact halfway point hs (plain decimal,
// ends in a non-zero digit).
func halfwayVariants(hs string) []string {
	vs := []string{hs}
	// slightly above / below
	vs = append(vs, hs+"1")
	if strings.Contains(hs, ".") {
		last := hs[len(hs)-1]
		if last > '0' {
			vs = append(vs, hs[:len(hs)-1]+string(last-1)+"999")
		}
		vs = append(vs, hs+strings.Repeat("0", 50))
		// pad beyond 800 significant digits, then a 1
		vs = append(vs, hs+strings.Repeat("0", 850)+"1")
	} else {
		vs = append(vs, hs+".0000000000000000000000001")
		vs = append(vs, hs+"."+strings.Repeat("0", 850)+"1")
		// the same value written without a decimal point: digits, 900 zeros, negative exponent
		vs = append(vs, hs+strings.Repeat("0", 900)+"e-900")
		vs = append(vs, hs+strings.Repeat("0", 900)+"1e-901")
		// more than 800 integer digits followed by a fraction
		vs = append(vs, hs+strings.Repeat("0", 900)+".0e-900", hs+strings.Repeat("0", 900)+".5e-900")
		// below: decrement the integer by writing x-1 followed by .999
		if bi, ok := new(big.Int).SetString(hs, 10); ok && bi.Sign() > 0 {
			bi.Sub(bi, big.NewInt(1))
			vs = append(vs, bi.String()+".9999999999999999999999999")
		}
	}
	// zero-padded to exactly 797..802 significant digits with a non-zero last digit (the
	// multiprecision buffer holds 800)
	if sd := sigDigits(hs); sd < 790 {
		for _, total := range []int{797, 798, 799, 800, 801, 802} {
			pad := total - sd - 1
			if strings.Contains(hs, ".") {
				vs = append(vs, hs+strings.Repeat("0", pad)+"1")
			} else {
				vs = append(vs, hs+"."+strings.Repeat("0", pad)+"1")
			}
		}
	}
	for _, n := range []int{17, 18, 19, 20, 21} {
		t := truncSig(hs, n)
		vs = append(vs, t)
		// truncated and bumped by one in the last kept place is covered by the digits family
	}
	// exponent spellings
	vs = append(vs, hs+"e0", hs+"E+0", hs+"e-0", hs+"0e-1")
	return vs
}

// c04Audit reads the result of the in-package table audit the check driver ran with
// `go test -overlay` (every word of the Eisel-Lemire table, the exact powers of ten, powtab,
// leftcheats, digits recomputed with math/big).
func c04Audit(r *eng.Run) {
	path := os.Getenv("VERIF_WORK") + "/fp_audit.txt"
	b, err := os.ReadFile(path)
	if err != nil {
		r.Inexhaustive("float table audit did not run (internal/fp no longer has the audited names, or go test failed)")
		return
	}
	out := string(b)
	var words, mism int
	for _, l := range strings.Split(out, "\n") {
		if strings.HasPrefix(l, "AUDIT-RESULT") {
			fmt.Sscanf(l, "AUDIT-RESULT words=%d mismatches=%d", &words, &mism)
		}
	}
	if words == 0 {
		r.Inexhaustive("float table audit produced no result (does not compile against this tree?)")
		return
	}
	r.Set("table_audit_words", words)
	r.Set("table_audit_mismatches", mism)
	r.Add("evaluations", words)
	if mism == 0 {
		return
	}
	// A table word that deviates from its mathematical definition invalidates the algorithm's
	// correctness argument, but the property is about results: search a witness literal for each
	// deviating row and report only those.
	found := 0
	for _, l := range strings.Split(out, "\n") {
		if strings.HasPrefix(l, "AUDIT-MISMATCH leftcheats[") {
			if w := cheatWitness(l); w != "" {
				found++
				var bad, exp, got string
				if pan := guard(func() { bad, _, exp, got = checkFloat([]byte(w), nil) }); pan != "" {
					bad, exp, got = "ReadFloat64/panic", "returns normally", pan
				}
				r.Violation(eng.Replay{Engine: "num", Entry: "ReadFloat64", Sig: fmt.Sprintf("%s/cheat-table/%s", bad, w), InputB64: []byte(w), Expected: exp, Got: got, Extra: map[string]interface{}{"audit": l}})
				continue
			}
		}
		if !strings.HasPrefix(l, "AUDIT-MISMATCH detailedPowersOfTen[1e") {
			if strings.HasPrefix(l, "AUDIT-MISMATCH") {
				r.Note("table audit: %s", l)
			}
			continue
		}
		var q int
		fmt.Sscanf(l, "AUDIT-MISMATCH detailedPowersOfTen[1e%d]", &q)
		w := auditWitness(q)
		if w == "" {
			r.Note("table audit: %s — no misrounded literal found among the searched mantissas", l)
			continue
		}
		found++
		bad, _, exp, got := checkFloat([]byte(w), nil)
		r.Violation(eng.Replay{Engine: "num", Entry: "ReadFloat64", Sig: fmt.Sprintf("%s/table-row-1e%d", bad, q), InputB64: []byte(w), Expected: exp, Got: got, Extra: map[string]interface{}{"audit": l}})
	}
	if found < mism {
		r.Inexhaustive("table words deviate from their definition but no misrounded literal was found for some of them")
	}
}

// cheatWitness searches a literal the implementation gets wrong for a deviating row of the
// left-shift table: digit strings round the recorded and the true cutoff behind 0..40 zeros.
func cheatWitness(line string) string {
	var k, d1, d2 int
	var c1, c2 string
	line = strings.NewReplacer("{", " ", "}", " ", ",", " ").Replace(line)
	if n, _ := fmt.Sscanf(line, "AUDIT-MISMATCH leftcheats[%d] =  %d %s  want  %d %s", &k, &d1, &c1, &d2, &c2); n < 5 {
		return ""
	}
	for _, c := range []string{c1, c2} {
		b, ok := new(big.Int).SetString(c, 10)
		if !ok {
			continue
		}
		for _, dl := range []int64{0, -1, 1, -2, 2} {
			ds := new(big.Int).Add(b, big.NewInt(dl)).String()
			for z := 0; z <= 40; z++ {
				for _, lit := range []string{"0." + strings.Repeat("0", z) + ds, "0." + strings.Repeat("0", z) + ds + "00000000000000000001", ds + "e-" + strconv.Itoa(z+len(ds)), ds + strings.Repeat("0", z) + "00000000000000000001"} {
					bad := ""
					if pan := guard(func() { bad, _, _, _ = checkFloat([]byte(lit), nil) }); pan != "" || bad != "" {
						return lit
					}
				}
			}
		}
	}
	return ""
}

// auditWitness searches mantissas for a literal m x 10^q that the implementation misrounds.
func auditWitness(q int) string {
	var res atomic.Value
	eng.Parallel(64, func(shard int) {
		for m := shard + 1; m < 4000000; m += 64 {
			if res.Load() != nil {
				return
			}
			lit := strconv.Itoa(m) + "e" + strconv.Itoa(q)
			if bad, _, _, _ := checkFloat([]byte(lit), nil); bad != "" {
				res.Store(lit)
				return
			}
		}
	})
	if v := res.Load(); v != nil {
		return v.(string)
	}
	return ""
}

// sigDigits counts the significant digits of a plain decimal (from the first non-zero digit).
func sigDigits(s string) int {
	n, started := 0, false
	for i := 0; i < len(s); i++ {
		c := s[i]
		if c < '0' || c > '9' {
			continue
		}
		if c != '0' {
			started = true
		}
		if started {
			n++
		}
	}
	return n
}
