package props

import (
	"bytes"
	"encoding/json"
	"fmt"
	"strings"
	"sync/atomic"

	"github.com/willabides/rjson"

	"verifharness/eng"
	"verifharness/ref"
)

func init() {
	Registry["C06"] = c06
	Replayers["C06"] = func(rp *eng.Replay) (bool, string) {
		bad, _, exp, got := checkStrings(rp.InputB64, nil)
		return bad != "", fmt.Sprintf("%s expected %s got %s", bad, exp, got)
	}
}

// stdString decodes the first token of w with encoding/json if it is a string.
func stdString(w []byte) (val string, p int, ok bool) {
	dec := json.NewDecoder(bytes.NewReader(w))
	var raw json.RawMessage
	if err := dec.Decode(&raw); err != nil {
		return "", 0, false
	}
	if len(raw) == 0 || raw[0] != '"' {
		return "", 0, false
	}
	if err := json.Unmarshal(raw, &val); err != nil {
		return "", 0, false
	}
	return val, int(dec.InputOffset()), true
}

func q(b []byte) string {
	s := fmt.Sprintf("%q", b)
	if len(s) > 120 {
		s = s[:120] + "..."
	}
	return s
}

// checkStrings compares every string entry point on w with the reference unescaper and the
// reference with encoding/json.
func checkStrings(w []byte, _ *ref.PDA) (string, bool, string, string) {
	want, wp, ok := ref.ReadString(w)
	sv, sp, sok := stdString(w)
	if ok != sok || (ok && (sp != wp || sv != string(ref.SanitizeUTF8(want)))) {
		return "reference!=encoding/json", true, fmt.Sprintf("%v %q p=%d", sok, sv, sp), fmt.Sprintf("%v %s p=%d", ok, q(want), wp)
	}
	// ReadStringBytes, nil destination
	val, p, err := rjson.ReadStringBytes(w, nil)
	if (err == nil) != ok {
		return "ReadStringBytes/success", false, fmt.Sprintf("ok=%v", ok), fmt.Sprintf("%s p=%d %s", q(val), p, errStr(err))
	}
	if ok && (p != wp || !bytes.Equal(val, want)) {
		return "ReadStringBytes/value", false, fmt.Sprintf("%s p=%d", q(want), wp), fmt.Sprintf("%s p=%d", q(val), p)
	}
	// destination with a prefix and little spare capacity (growth boundary)
	dst := make([]byte, 2, 3)
	dst[0], dst[1] = 'x', 'y'
	val2, p2, err2 := rjson.ReadStringBytes(w, dst)
	if (err2 == nil) != ok || (ok && (p2 != wp || !bytes.Equal(val2, append([]byte("xy"), want...)))) {
		return "ReadStringBytes/append", false, fmt.Sprintf("ok=%v xy+%s p=%d", ok, q(want), wp), fmt.Sprintf("%s p=%d %s", q(val2), p2, errStr(err2))
	}
	// ReadString with nil and dirty scratch
	s1, p3, err3 := rjson.ReadString(w, nil)
	if (err3 == nil) != ok || (ok && (p3 != wp || s1 != string(want))) {
		return "ReadString", false, fmt.Sprintf("ok=%v %s p=%d", ok, q(want), wp), fmt.Sprintf("%q p=%d %s", s1, p3, errStr(err3))
	}
	scratch := []byte("dirty!")
	s2, p4, err4 := rjson.ReadString(w, &scratch)
	if (err4 == nil) != ok || (ok && (p4 != wp || s2 != string(want))) {
		return "ReadString/scratch", false, fmt.Sprintf("ok=%v %s p=%d", ok, q(want), wp), fmt.Sprintf("%q p=%d %s", s2, p4, errStr(err4))
	}
	// DecodeString
	tgt := "sentinel"
	p5, err5 := rjson.DecodeString(w, &tgt, nil)
	if ok && (err5 != nil || p5 != wp || tgt != string(want)) {
		return "DecodeString", false, fmt.Sprintf("%s p=%d", q(want), wp), fmt.Sprintf("%q p=%d %s", tgt, p5, errStr(err5))
	}
	// UnescapeStringContent on the bytes after the opening quote
	i := 0
	for i < len(w) && ref.IsWS(w[i]) {
		i++
	}
	if i < len(w) && w[i] == '"' {
		// (a) the content of the well-formed token
		if ok {
			content := w[i+1 : wp-1]
			u, up, uerr := rjson.UnescapeStringContent(content, nil)
			if uerr != nil || up != len(content) || !bytes.Equal(u, want) {
				return "UnescapeStringContent/token", false, fmt.Sprintf("%s p=%d nil", q(want), len(content)), fmt.Sprintf("%s p=%d %s", q(u), up, errStr(uerr))
			}
			u2, up2, uerr2 := rjson.UnescapeStringContent(content, dst[:2])
			if uerr2 != nil || up2 != len(content) || !bytes.Equal(u2, append([]byte("xy"), want...)) {
				return "UnescapeStringContent/append", false, fmt.Sprintf("xy+%s p=%d nil", q(want), len(content)), fmt.Sprintf("%s p=%d %s", q(u2), up2, errStr(uerr2))
			}
		}
		// (b) everything read so far after the quote: a well-formed content iff closing it
		// here gives a well-formed token
		rest := w[i+1:]
		if rw, rok := ref.Unescape(rest); rok {
			u, up, uerr := rjson.UnescapeStringContent(rest, nil)
			if uerr != nil || up != len(rest) || !bytes.Equal(u, rw) {
				return "UnescapeStringContent/prefix", false, fmt.Sprintf("%s p=%d nil", q(rw), len(rest)), fmt.Sprintf("%s p=%d %s", q(u), up, errStr(uerr))
			}
		} else {
			_, up, uerr := rjson.UnescapeStringContent(rest, nil) // totality only
			if uerr == nil && (up < 0 || up > len(rest)) {
				return "UnescapeStringContent/range", false, "0<=p<=len", fmt.Sprint(up)
			}
		}
	}
	return "", false, "", ""
}

func c06(r *eng.Run) {
	K := r.Pick(1, 2)
	sp := e1Spec{
		handWritten: true,
		entry:       "ReadStringBytes/ReadString/DecodeString/UnescapeStringContent",
		probe:       func(w []byte) { rjson.ReadStringBytes(w, nil) },
		probes: []func([]byte){func(w []byte) {
			i := bytes.IndexByte(w, '"')
			if i >= 0 {
				rjson.UnescapeStringContent(w[i+1:], nil)
			}
		}},
		check: checkStrings,
		alive: func(w []byte, a *ref.PDA) bool {
			if a.Depth() > 0 {
				return false
			}
			switch a.Phase {
			case ref.PTop, ref.PStr:
				return true
			case ref.PDone:
				return a.Trail < 2 && a.WS < 2
			}
			return false
		},
		refKey: func(w []byte, a *ref.PDA) string { return a.Key() + ref.StrRefine(w) },
		maxLen: 40,
		// plain runs up to 33 bytes before the interesting byte and 16 after it: 16-byte block
		// scanners
		pumpN: 33, pumpTail: 16,
	}
	res := runE1(r, sp, 0, K, 500000)
	e1Evidence(r, 0, K, res)
	runFamily(r, "string-shapes", sp.entry, stringShapeFamily(), checkStrings)
	runPairSweep(r, sp.entry, pairCtxAll[:1], checkStrings)
	runFamily(r, "long-runs", sp.entry, longRunFamily(r.Thorough()), checkStrings)
	coverageReport(r, "appendRemainderOfString", "unescapeStringContent")
	c06Sweeps(r)
	r.Set("rule", e1Rule+" String explorations refine the reference state with the class of the partially read \\u escape and a pending-high-surrogate bit. E5 sweeps: all 65,536 \\uXXXX units (three hex-case spellings, alone / followed by x / truncated), all 1024x1024 high-low pairs and all other ordered surrogate pairs, each surrogate followed by a menu of malformed second escapes, destination (len, spare) x escape kinds at growth boundaries.")
	r.Sample(map[string]interface{}{"kind": "pfx-node", "input": `"a\ud83d\ud`, "note": "followed by all 256 bytes; ReadStringBytes, ReadString, DecodeString, UnescapeStringContent compared with the reference unescaper and encoding/json"})
}

func c06Sweeps(r *eng.Run) {
	var evals int64
	one := func(w []byte, fam string) {
		atomic.AddInt64(&evals, 1)
		var bad, exp, got string
		var of bool
		pan := guard(func() { bad, of, exp, got = checkStrings(w, nil) })
		if pan != "" {
			r.Violation(eng.Replay{Engine: "sweep", Entry: "string readers", Sig: "panic/" + fam + "/" + shortSig(w), InputB64: append([]byte(nil), w...), Expected: "returns normally", Got: "panic: " + pan})
			return
		}
		if of {
			r.Inexhaustive(fmt.Sprintf("oracle disagreement on %q: std=%s ref=%s", w, exp, got))
			return
		}
		if bad != "" {
			r.Violation(eng.Replay{Engine: "sweep", Entry: "string readers", Sig: bad + "/" + fam + "/" + shortSig(w), InputB64: append([]byte(nil), w...), Expected: exp, Got: got})
		}
	}
	// all code units, three spellings, three contexts
	eng.Parallel(65536, func(u int) {
		for _, f := range []string{"%04x", "%04X"} {
			h := fmt.Sprintf(f, u)
			hs := []string{h}
			if f == "%04x" {
				// mixed case: alternate
				m := []byte(h)
				for i := range m {
					if i%2 == 0 && m[i] >= 'a' {
						m[i] -= 32
					}
				}
				if string(m) != h {
					hs = append(hs, string(m))
				}
			}
			for _, hh := range hs {
				one([]byte(`"\u`+hh+`"`), "unit")
				one([]byte(`"\u`+hh+`x"`), "unit+x")
				one([]byte(`"é\u`+hh+`\n"`), "unit-mid")
				one([]byte(`"\u`+hh), "unit-eof")
				one([]byte(`"\u`+hh[:3]+`"`), "unit-short")
			}
		}
	})
	// all ordered surrogate pairs (2048 x 2048)
	eng.Parallel(2048, func(i int) {
		hi := 0xD800 + i
		buf := make([]byte, 0, 16)
		for j := 0; j < 2048; j++ {
			lo := 0xD800 + j
			buf = buf[:0]
			buf = append(buf, fmt.Sprintf(`"\u%04x\u%04X"`, hi, lo)...)
			one(buf, "pair")
		}
	})
	// each surrogate (sampled completely at the range edges, every 16th inside) followed by
	// truncated or malformed second escapes
	menu := []string{``, `\`, `\u`, `\ud`, `\udc`, `\udc0`, `\udc0g`, `\uDC00`, `\udbff`, `\ud800`, U("0041"), `\n`, `\"`, `\\udc00`, `x\udc00`, `\U dc00`, `\udc00\udc00`, U("d83d") + U("de00"), U("D83D") + U("DE00") + U("de00"), `\x`, `\u{dc00}`, ` \udc00`, `\/`, `é`, "\xff", `\udfff`, ``, `퟿`}
	var units []int
	for u := 0xD7F0; u <= 0xE010; u++ {
		units = append(units, u)
	}
	eng.Parallel(len(units), func(i int) {
		for _, m := range menu {
			for _, end := range []string{`"`, ``, `x"`} {
				one([]byte(fmt.Sprintf(`"\u%04x%s%s`, units[i], m, end)), "second-escape")
			}
		}
	})
	// every high surrogate followed by units round the surrogate range boundaries and a few others
	bounds := []int{0xD7FF, 0xD800, 0xDBFF, 0xDC00, 0xDFFF, 0xE000, 0xE001, 0xFFFF, 0x0000, 0x0041}
	eng.Parallel(1024, func(i int) {
		hi := 0xD800 + i
		for _, lo := range bounds {
			one([]byte(fmt.Sprintf(`"%s%s"`, U(fmt.Sprintf("%04x", hi)), U(fmt.Sprintf("%04X", lo)))), "high-then-boundary-unit")
		}
	})
	// two escapes separated by a plain run of every length 0..17 (destination sizing depends on
	// where the first quote-like byte sits)
	for _, w := range twoEscapeStrings() {
		one(w, "two-escapes")
	}
	// long strings round power-of-two size thresholds: an escape followed / preceded by a long
	// plain run (size hints, chunked copies, caps such as 64 KiB)
	for _, L := range []int{1000, 4095, 4096, 4097, 65535, 65536, 65537, 73727, 73728, 73729, 80000, 131072, 200000} {
		run := strings.Repeat("x", L)
		for _, e := range []string{"\\" + "n", U("00e9"), "\\" + `"`} {
			one([]byte(`"`+e+run+`"`), "long-after-escape")
			one([]byte(`"`+run+e+`"`), "long-before-escape")
			one([]byte(`"`+e+run+e+run[:100]+`"`), "long-between-escapes")
		}
	}
	// growth boundaries: destination (len 0..3, spare 0..8) x escape kinds at each position of a
	// 3-byte string
	escs := []string{`\n`, `\"`, `\\`, `\/`, `\b`, `\f`, `\r`, `\t`, U("0041"), U("00e9"), U("20ac"), U("d83d") + U("de00"), U("0000"), "é", "😀", `\ud800`, "\x7f", "\xc3\xa9", "\xff"}
	n := 0
	for _, e := range escs {
		for pos := 0; pos <= 3; pos++ {
			content := "abc"[:pos] + e + "abc"[pos:]
			w := []byte(`"` + content + `"`)
			want, wp, ok := ref.ReadString(w)
			if !ok {
				continue
			}
			for l := 0; l <= 3; l++ {
				for spare := 0; spare <= 8; spare++ {
					dst := make([]byte, l, l+spare)
					copy(dst, "xyz")
					full := dst[:cap(dst)]
					for k := l; k < len(full); k++ {
						full[k] = 0xAA
					}
					n++
					pan := guard(func() {
						val, p, err := rjson.ReadStringBytes(w, dst)
						if err != nil || p != wp || !bytes.Equal(val, append([]byte("xyz"[:l]), want...)) {
							r.Violation(eng.Replay{Engine: "sweep", Entry: "ReadStringBytes", Sig: fmt.Sprintf("growth/len=%d/spare=%d/%s", l, spare, shortSig(w)), InputB64: w, Expected: fmt.Sprintf("%q p=%d", append([]byte("xyz"[:l]), want...), wp), Got: fmt.Sprintf("%q p=%d %s", val, p, errStr(err))})
						}
						u, up, uerr := rjson.UnescapeStringContent([]byte(content), dst)
						if uerr != nil || up != len(content) || !bytes.Equal(u, append([]byte("xyz"[:l]), want...)) {
							r.Violation(eng.Replay{Engine: "sweep", Entry: "UnescapeStringContent", Sig: fmt.Sprintf("growth/unescape/len=%d/spare=%d/%s", l, spare, shortSig(w)), InputB64: w, Expected: fmt.Sprintf("%q p=%d", append([]byte("xyz"[:l]), want...), len(content)), Got: fmt.Sprintf("%q p=%d %s", u, up, errStr(uerr))})
						}
					})
					if pan != "" {
						r.Violation(eng.Replay{Engine: "sweep", Entry: "ReadStringBytes", Sig: fmt.Sprintf("panic/growth/len=%d/spare=%d/%s", l, spare, shortSig(w)), InputB64: w, Expected: "returns normally", Got: pan})
					}
				}
			}
		}
	}
	r.Add("evaluations", int(evals)+n)
	r.Set("e5_sweep_inputs", int(evals))
	r.Set("e5_growth_cases", n)
	r.Sample(map[string]interface{}{"kind": "sweep", "input": `"😀"`, "family": "all 2048x2048 ordered surrogate pairs"})
}

// twoEscapeStrings returns string tokens with two escapes separated by plain runs of length
// 0..17, for every pair of escape kinds.
func twoEscapeStrings() [][]byte {
	kinds := []string{"\\" + `"`, "\\" + "\\", "\\" + "n", "\\" + "/", U("0041"), U("00e9"), U("20ac"), U("d83d") + U("de00"), U("d800"), U("dc00")}
	var out [][]byte
	for _, e1 := range kinds {
		for _, e2 := range kinds {
			for k := 0; k <= 17; k++ {
				for _, pre := range []int{0, 3} {
					out = append(out, []byte(`"`+strings.Repeat("p", pre)+e1+strings.Repeat("x", k)+e2+`"`))
				}
			}
		}
	}
	return out
}
