package props

import (
	"errors"
	"fmt"
	"strings"
	"sync/atomic"

	"github.com/willabides/rjson"

	"verifharness/eng"
	"verifharness/ref"
)

func init() {
	Registry["C08"] = c08
	Replayers["C08"] = func(rp *eng.Replay) (bool, string) {
		var bad, exp, got string
		pan := guard(func() {
			eng.ReplayChoices(func(c *eng.Chooser) { bad, exp, got = checkComposition(rp.InputB64, c) }, rp.Choices)
		})
		if pan != "" {
			return true, "panic: " + pan
		}
		return bad != "", fmt.Sprintf("%s expected %s got %s", bad, exp, got)
	}
}

var errUnexpectedToken = errors.New("decoder: unexpected token")

// composed is one decoder of the API-composition family: at every value it peeks the token type
// and lets the choice explorer pick one applicable public-API action, always returning the
// offset the callee reported.
type composed struct {
	c       *eng.Chooser
	shared  rjson.Buffer
	vr      rjson.ValueReader
	scratch []byte // one scratch buffer shared by all ReadString/shared calls of this decoder
	partial bool   // some value was skipped rather than read
	// strat, when set, replaces the choice explorer: a fixed decoding style (index into names)
	strat    func(tt rjson.TokenType, names []string, depth int) int
	depth    int
	usedFast bool // SkipValueFast was used (non-validating)
	actions  []string
}

func (d *composed) pick(tt rjson.TokenType, names ...string) string {
	var a string
	if d.strat != nil {
		a = names[d.strat(tt, names, d.depth)]
	} else {
		a = names[d.c.Choose(len(names))]
	}
	d.actions = append(d.actions, a)
	return a
}

func (d *composed) skip(action string, data []byte, buf *rjson.Buffer) (interface{}, int, error) {
	d.partial = true
	if action == "SkipValueFast" {
		d.usedFast = true
		p, err := rjson.SkipValueFast(data, buf)
		return nil, p, err
	}
	p, err := rjson.SkipValue(data, buf)
	return nil, p, err
}

func (d *composed) value(data []byte, inHandler bool) (interface{}, int, error) {
	tt, _, err := rjson.NextTokenType(data)
	if err != nil {
		return nil, 0, err
	}
	common := []string{"SkipValue", "SkipValueFast"}
	if inHandler {
		common = append(common, "return0")
	}
	with := func(first ...string) string { return d.pick(tt, append(first, common...)...) }
	var act string
	switch tt {
	case rjson.NullType:
		act = with("ReadNull")
	case rjson.TrueType, rjson.FalseType:
		act = with("ReadBool", "DecodeBool")
	case rjson.NumberType:
		act = with("ReadFloat64", "DecodeFloat64")
	case rjson.StringType:
		act = with("ReadString", "ReadStringBytes", "DecodeString", "ReadString/shared-scratch", "DecodeString/shared-scratch")
	case rjson.ObjectStartType, rjson.ArrayStartType:
		act = with("Handle/shared", "Handle/own", "Handle/nil", "ValueReader.ReadValue", "ReadValue")
	default:
		return nil, 0, errUnexpectedToken
	}
	switch act {
	case "return0":
		d.partial = true
		return nil, 0, nil
	case "SkipValue", "SkipValueFast":
		return d.skip(act, data, &d.shared)
	case "ReadNull":
		p, err := rjson.ReadNull(data)
		return nil, p, err
	case "ReadBool":
		return rjson.ReadBool(data)
	case "DecodeBool":
		var b bool
		p, err := rjson.DecodeBool(data, &b)
		return b, p, err
	case "ReadFloat64":
		return rjson.ReadFloat64(data)
	case "DecodeFloat64":
		var f float64
		p, err := rjson.DecodeFloat64(data, &f)
		return f, p, err
	case "ReadString":
		return rjson.ReadString(data, nil)
	case "ReadString/shared-scratch":
		return rjson.ReadString(data, &d.scratch)
	case "DecodeString/shared-scratch":
		var s string
		p, err := rjson.DecodeString(data, &s, &d.scratch)
		return s, p, err
	case "ReadStringBytes":
		b, p, err := rjson.ReadStringBytes(data, nil)
		return string(b), p, err
	case "DecodeString":
		var s string
		p, err := rjson.DecodeString(data, &s, nil)
		return s, p, err
	case "ValueReader.ReadValue":
		return d.vr.ReadValue(data)
	case "ReadValue":
		return rjson.ReadValue(data)
	}
	// nested handler traversal
	var buf *rjson.Buffer
	switch act {
	case "Handle/shared":
		buf = &d.shared
	case "Handle/own":
		buf = &rjson.Buffer{}
	}
	d.depth++
	defer func() { d.depth-- }()
	if tt == rjson.ArrayStartType {
		arr := []interface{}{}
		p, err := rjson.HandleArrayValues(data, rjson.ArrayValueHandlerFunc(func(d2 []byte) (int, error) {
			v, pp, err := d.value(d2, true)
			if err != nil {
				return pp, err
			}
			arr = append(arr, v)
			return pp, nil
		}), buf)
		return arr, p, err
	}
	m := map[string]interface{}{}
	p, err := rjson.HandleObjectValues(data, rjson.ObjectValueHandlerFunc(func(key, d2 []byte) (int, error) {
		k, _, kerr := rjson.UnescapeStringContent(key, nil)
		if kerr != nil {
			return 0, kerr
		}
		v, pp, err := d.value(d2, true)
		if err != nil {
			return pp, err
		}
		m[string(k)] = v
		return pp, nil
	}), buf)
	return m, p, err
}

// checkComposition runs one decoder of the family (chosen by c) on text and compares with direct
// decoding.
func checkComposition(text []byte, c *eng.Chooser) (bad, exp, got string) {
	sp, serr := rjson.SkipValue(text, nil)
	tv, tp, terr := rjson.ReadValue(text)
	d := &composed{c: c}
	v, p, err := d.value(text, false)
	desc := fmt.Sprintf("decoder %v", d.actions)
	if terr == nil {
		if err != nil {
			return "decoder-fails", fmt.Sprintf("p=%d nil (direct decoding succeeds)", tp), fmt.Sprintf("%s: %s", desc, errStr(err))
		}
		if p != sp || p != tp {
			return "final-offset", fmt.Sprintf("p=%d (SkipValue %d, ReadValue %d)", sp, sp, tp), fmt.Sprintf("%s: p=%d", desc, p)
		}
		if !d.partial && !ref.SameTree(v, tv) {
			return "tree", treeStr(tv), fmt.Sprintf("%s: %s", desc, treeStr(v))
		}
		return "", "", ""
	}
	// direct decoding fails
	if err == nil {
		if serr != nil && !d.usedFast {
			return "validating-decoder-accepts", "error (SkipValue fails on this input)", fmt.Sprintf("%s: p=%d nil", desc, p)
		}
		if !d.partial {
			return "full-decoder-accepts", "error (ReadValue fails on this input)", fmt.Sprintf("%s: p=%d nil", desc, p)
		}
	}
	return "", "", ""
}

func c08(r *eng.Run) {
	N := r.Pick(3, 4)
	maxComplete := r.Pick(6, 6)
	ds := eng.GenDocs(N, []string{"null", "true", "-1.5e1", `"a"`, `"` + "\\" + `n"`, "12", `"` + U("0041") + "\\" + `""`}, []string{`"a"`, `"` + U("0061") + `"`, `"b` + "\\" + `t"`})
	texts := ds.All()
	var execs, complete, bounded int64
	var distinct int64
	run := func(text string, fam string) {
		w := eng.Exact([]byte(text))
		atomic.AddInt64(&distinct, 1)
		st := eng.ExploreChoices(func(c *eng.Chooser) {
			var bad, exp, got string
			pan := guard(func() { bad, exp, got = checkComposition(w, c) })
			if pan != "" {
				r.Violation(eng.Replay{Engine: "compose", Entry: "decoder family", Sig: "panic/" + shortSig(w), InputB64: w, Choices: append([]int(nil), c.Trace...), Expected: "returns normally", Got: "panic: " + pan})
				return
			}
			if bad != "" {
				r.Violation(eng.Replay{Engine: "compose", Entry: "decoder family", Sig: bad + "/" + fam + "/" + shortSig(w), InputB64: w, Choices: append([]int(nil), c.Trace...), Expected: exp, Got: got})
			}
		}, maxComplete, devBound(maxComplete))
		atomic.AddInt64(&execs, int64(st.Executions))
		if st.Complete {
			atomic.AddInt64(&complete, 1)
		} else {
			atomic.AddInt64(&bounded, 1)
		}
	}
	eng.Parallel(len(texts), func(i int) {
		run(texts[i], "tree")
		run(eng.Style(texts[i], 1), "tree-ws")
	})
	// one size up: every decoder within one deviation of the all-default decoder and of each
	// uniform alternative is not enumerated here; only <= 1 deviation from the default
	next := eng.GenDocs(N+1, []string{"null", "-1.5e1", `"` + "\\" + `n"`}, []string{`"a"`, `"` + U("0061") + `"`}).BySize[N+1]
	save := maxComplete
	maxComplete = 0
	eng.Parallel(len(next), func(i int) { run(next[i], "tree-next-size") })
	maxComplete = save
	r.Set("next_size_texts_one_deviation", len(next))
	// malformed inputs: distance-1 corruptions of the texts with <= 2 nodes (3 in thorough)
	var corr []string
	corr = append(corr, ds.BySize[1]...)
	corr = append(corr, ds.BySize[2]...)
	if r.Thorough() {
		corr = append(corr, ds.BySize[3]...)
	}
	eng.Parallel(len(corr), func(i int) {
		eng.Corruptions(corr[i], corruptAlpha, func(s string) { run(s, "corruption") })
	})
	// a few larger documents with bounded deviations
	for _, t := range []string{`{"k":` + strings.Repeat("[", 20) + `1` + strings.Repeat("]", 20) + `,"z":2}`, `[` + strings.Repeat(`{"a":`, 18) + `"x"` + strings.Repeat("}", 18) + `,[1]]`, `{"a":[1,{"b":"x","c":[true,null]}],"d":{"e":{"f":[]}}}`, `[[1,2],[3,[4,[5,"six"]]],{"a":{}}]`, ` { "k" : [ 1e2 , "` + "\\" + `"" ] , "` + U("006b") + `" : null } x`} {
		run(t, "large")
	}
	r.Set("evaluations", int(execs))
	r.Set("distinct_nontrivial", int(distinct))
	r.Set("states", int(distinct))
	r.Set("transitions", int(execs))
	r.Set("traces_validated_against_impl", int(execs))
	r.Set("texts_with_all_decoders", int(complete))
	r.Set("texts_with_deviation_bounded_decoders", int(bounded))
	r.Set("e2_texts_by_nodes", ds.Count())
	r.Set("rule", "E2 x choice: every JSON text with <= N nodes over a leaf/key menu (two whitespace styles) and every distance-1 corruption of the smaller ones; for each text the stateless choice explorer enumerates every decoder of the composition family (per value: typed Read*/Decode*, SkipValue, SkipValueFast, return 0 inside a handler, nested Handle*Values with shared/own/nil buffer, ValueReader.ReadValue, ReadValue), complete for <= maxComplete choice points, else <= 2 deviations from the default. states = distinct texts, transitions = decoder executions. Oracle: SkipValue's offset and ReadValue's tree on the same text; validating decoders must fail where direct decoding fails.")
	r.Sample(map[string]interface{}{"kind": "text+decoder", "text": `{"a":[true,"a"]}`, "decoder": []string{"Handle/shared", "Handle/nil", "DecodeBool", "return0"}})
	r.Assume("the decoder family is the stated menu; typed integer readers are not part of it (a decoder choosing ReadInt64 for 1.5 fails by its own choice)")
	c08E1(r)
	r.Set("rule", r.Cov["rule"].(string)+" E1 pass: BFS over product states (skipValue configuration x ValueReader frame stack x reference automaton) x all 256 bytes, plus pumping and the long-run / string-shape / depth-site families; on every node each of the uniform decoding styles (every public-API action in every position) is run and compared with the REFERENCE decoder: same final offset wherever the first value is well-formed, same tree when everything was read, failure of every validating style where it is malformed.")
}

func devBound(maxComplete int) int {
	if maxComplete == 0 {
		return 1
	}
	return 2
}

// ---- E1 pass: decoding styles on every parser configuration, against the reference ----------

// prefer returns a strategy that picks, per token kind, the first listed action that is on the
// menu (index 0 = the menu's default otherwise). top applies at depth 0, nested below.
type stylePrefs struct {
	name              string
	scalar            []string // for null / bool / number / string tokens
	topCont, nestCont []string // for containers at depth 0 / deeper
}

func (sp stylePrefs) strat() func(tt rjson.TokenType, names []string, depth int) int {
	find := func(prefs, names []string) int {
		for _, p := range prefs {
			for i, n := range names {
				if n == p {
					return i
				}
			}
		}
		return 0
	}
	return func(tt rjson.TokenType, names []string, depth int) int {
		if tt == rjson.ObjectStartType || tt == rjson.ArrayStartType {
			if depth == 0 {
				return find(sp.topCont, names)
			}
			return find(sp.nestCont, names)
		}
		return find(sp.scalar, names)
	}
}

// decodingStyles are the uniform decoders run on every E1 node: each public-API action occurs in
// at least one of them in every position (top-level scalar, member of a top-level container,
// member of a nested container).
var decodingStyles = []stylePrefs{
	{name: "typed-readers/handle-shared"},
	{name: "skip-scalars/handle-nil", scalar: []string{"SkipValue"}, topCont: []string{"Handle/nil"}, nestCont: []string{"Handle/nil"}},
	{name: "return0-scalars/handle-own", scalar: []string{"return0", "SkipValue"}, topCont: []string{"Handle/own"}, nestCont: []string{"Handle/own"}},
	{name: "decode-forms/skip-nested", scalar: []string{"DecodeBool", "DecodeFloat64", "DecodeString", "return0"}, topCont: []string{"Handle/own"}, nestCont: []string{"SkipValue"}},
	{name: "bytes+shared-scratch/valuereader-nested", scalar: []string{"ReadString/shared-scratch", "DecodeFloat64"}, topCont: []string{"Handle/shared"}, nestCont: []string{"ValueReader.ReadValue"}},
	{name: "stringbytes/readvalue-nested", scalar: []string{"ReadStringBytes", "DecodeString/shared-scratch"}, topCont: []string{"Handle/own"}, nestCont: []string{"ReadValue"}},
	{name: "typed/return0-nested", topCont: []string{"Handle/shared"}, nestCont: []string{"return0"}},
	{name: "skip-everything", scalar: []string{"SkipValue"}, topCont: []string{"SkipValue"}, nestCont: []string{"SkipValue"}},
	{name: "fast-scalars/handle-shared", scalar: []string{"SkipValueFast"}, topCont: []string{"Handle/shared"}, nestCont: []string{"Handle/shared"}},
	{name: "typed/fast-nested", topCont: []string{"Handle/nil"}, nestCont: []string{"SkipValueFast"}},
}

var activeStyles = decodingStyles

// checkStyles runs every decoding style on w and compares with the reference decoder: wherever
// the reference finds a well-formed first value every style must finish exactly at its end (and
// rebuild the reference tree when it read everything); where the first value is malformed or
// incomplete every style built from validating actions must fail.
func checkStyles(w []byte, a *ref.PDA) (string, bool, string, string) {
	want, end, ok := ref.Decode(w) // well-formed and all numbers in range
	rok, rend := a.FirstValue()    // well-formed
	if ok && (!rok || rend != end) {
		return "reference-decoder!=reference-automaton", true, okStr(rok, rend), okStr(ok, end)
	}
	for _, st := range activeStyles {
		d := &composed{strat: st.strat()}
		v, p, err := d.value(w, false)
		switch {
		case ok && err != nil:
			return "style-fails/" + st.name, false, fmt.Sprintf("p=%d nil (well-formed first value)", end), fmt.Sprintf("%v: %s", d.actions, errStr(err))
		case rok && err == nil && p != rend:
			return "final-offset/" + st.name, false, fmt.Sprintf("p=%d", rend), fmt.Sprintf("%v: p=%d", d.actions, p)
		case ok && !d.partial && !ref.SameTree(v, want):
			return "tree/" + st.name, false, treeStr(want), fmt.Sprintf("%v: %s", d.actions, treeStr(v))
		case !rok && err == nil && !d.usedFast:
			return "validating-style-accepts/" + st.name, false, "error (first value malformed or incomplete)", fmt.Sprintf("%v: p=%d nil", d.actions, p)
		case rok && !ok && err == nil && !d.partial:
			return "full-style-accepts-out-of-range-number/" + st.name, false, "error", fmt.Sprintf("%v: p=%d nil", d.actions, p)
		case err == nil && (p < 0 || p > len(w)):
			return "offset-range/" + st.name, false, "0<=p<=len", fmt.Sprint(p)
		}
	}
	return "", false, "", ""
}

func c08E1(r *eng.Run) {
	D, K := 2, 1
	sp := e1Spec{
		entry:    "decoding styles",
		probe:    func(w []byte) { rjson.SkipValue(w, nil) },
		probes:   []func(w []byte){func(w []byte) { rjson.ReadValue(w) }},
		check:    checkStyles,
		noWindow: true,
	}
	if !r.Thorough() {
		sp.pumpN, sp.pumpTail = 9, 6
	}
	styles := decodingStyles
	if !r.Thorough() {
		// quick: the skip machine's configuration alone keys the search, and the two styles that are
		// plain SkipValue / SkipValueFast-on-scalars calls (decided by C02 / C11) are left out
		sp.probes = nil
		styles = nil
		for _, st := range decodingStyles {
			if st.name != "skip-everything" && st.name != "fast-scalars/handle-shared" && st.name != "return0-scalars/handle-own" {
				styles = append(styles, st)
			}
		}
	}
	activeStyles = styles
	res := runE1(r, sp, D, K, r.Pick(60000, 600000))
	r.Set("e1_bfs_nodes", res.st.Transitions)
	r.Set("e1_pump_nodes", res.pumped)
	r.Set("e1_states", res.st.States)
	r.Set("e1_nodes", res.st.Transitions+res.pumped)
	r.Set("e1_style_executions", (res.st.Transitions+res.pumped)*len(activeStyles))
	r.Set("e1_styles", len(activeStyles))
	n := runFamily(r, "long-runs", sp.entry, longRunFamily(false), checkStyles)
	n += runFamily(r, "string-shapes", sp.entry, stringShapeFamily(), checkStyles)
	n += runFamily(r, "depth-sites", sp.entry, depthSiteFamily(40), checkStyles)
	var hard [][]byte
	for _, x := range hardNumbers() {
		hard = append(hard, []byte(x), []byte("["+x+" ]"), []byte(`{"a":[`+x+`],"b":`+x+`}`))
	}
	for _, x := range hardStrings() {
		hard = append(hard, []byte(x), []byte("["+x+","+x+"]"), []byte(`{`+x+`:[`+x+`]}`))
	}
	for _, x := range relatedNameDocs() {
		hard = append(hard, []byte(x))
	}
	for _, x := range shortStringPairDocs() {
		hard = append(hard, []byte(x))
	}
	n += runFamily(r, "hard-numbers-strings-and-related-names", sp.entry, hard, checkStyles)
	r.Add("states", res.st.States)
	r.Add("transitions", (res.st.Transitions+res.pumped+n)*len(activeStyles))
	r.Add("traces_validated_against_impl", (res.validated+n)*len(activeStyles))
	r.Add("distinct_nontrivial", res.st.States)
	r.Add("evaluations", (res.st.Transitions+res.pumped)*len(activeStyles))
}
