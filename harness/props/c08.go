package props

import (
	"errors"
	"fmt"
	"strings"
	"sync/atomic"

	"github.com/willabides/rjson"

	"verifharness/eng"
	"verifharness/ref"
)

func init() {
	Registry["C08"] = c08
	Replayers["C08"] = func(rp *eng.Replay) (bool, string) {
		var bad, exp, got string
		pan := guard(func() {
			eng.ReplayChoices(func(c *eng.Chooser) { bad, exp, got = checkComposition(rp.InputB64, c) }, rp.Choices)
		})
		if pan != "" {
			return true, "panic: " + pan
		}
		return bad != "", fmt.Sprintf("%s expected %s got %s", bad, exp, got)
	}
}

var errUnexpectedToken = errors.New("decoder: unexpected token")

// composed is one decoder of the API-composition family: at every value it peeks the token type
// and lets the choice explorer pick one applicable public-API action, always returning the
// offset the callee reported.
type composed struct {
	c        *eng.Chooser
	shared   rjson.Buffer
	vr       rjson.ValueReader
	scratch  []byte // one scratch buffer shared by all ReadString/shared calls of this decoder
	partial  bool   // some value was skipped rather than read
	usedFast bool   // SkipValueFast was used (non-validating)
	actions  []string
}

func (d *composed) pick(names ...string) string {
	a := names[d.c.Choose(len(names))]
	d.actions = append(d.actions, a)
	return a
}

func (d *composed) skip(action string, data []byte, buf *rjson.Buffer) (interface{}, int, error) {
	d.partial = true
	if action == "SkipValueFast" {
		d.usedFast = true
		p, err := rjson.SkipValueFast(data, buf)
		return nil, p, err
	}
	p, err := rjson.SkipValue(data, buf)
	return nil, p, err
}

func (d *composed) value(data []byte, inHandler bool) (interface{}, int, error) {
	tt, _, err := rjson.NextTokenType(data)
	if err != nil {
		return nil, 0, err
	}
	common := []string{"SkipValue", "SkipValueFast"}
	if inHandler {
		common = append(common, "return0")
	}
	with := func(first ...string) string { return d.pick(append(first, common...)...) }
	var act string
	switch tt {
	case rjson.NullType:
		act = with("ReadNull")
	case rjson.TrueType, rjson.FalseType:
		act = with("ReadBool", "DecodeBool")
	case rjson.NumberType:
		act = with("ReadFloat64", "DecodeFloat64")
	case rjson.StringType:
		act = with("ReadString", "ReadStringBytes", "DecodeString", "ReadString/shared-scratch", "DecodeString/shared-scratch")
	case rjson.ObjectStartType, rjson.ArrayStartType:
		act = with("Handle/shared", "Handle/own", "Handle/nil", "ValueReader.ReadValue", "ReadValue")
	default:
		return nil, 0, errUnexpectedToken
	}
	switch act {
	case "return0":
		d.partial = true
		return nil, 0, nil
	case "SkipValue", "SkipValueFast":
		return d.skip(act, data, &d.shared)
	case "ReadNull":
		p, err := rjson.ReadNull(data)
		return nil, p, err
	case "ReadBool":
		return rjson.ReadBool(data)
	case "DecodeBool":
		var b bool
		p, err := rjson.DecodeBool(data, &b)
		return b, p, err
	case "ReadFloat64":
		return rjson.ReadFloat64(data)
	case "DecodeFloat64":
		var f float64
		p, err := rjson.DecodeFloat64(data, &f)
		return f, p, err
	case "ReadString":
		return rjson.ReadString(data, nil)
	case "ReadString/shared-scratch":
		return rjson.ReadString(data, &d.scratch)
	case "DecodeString/shared-scratch":
		var s string
		p, err := rjson.DecodeString(data, &s, &d.scratch)
		return s, p, err
	case "ReadStringBytes":
		b, p, err := rjson.ReadStringBytes(data, nil)
		return string(b), p, err
	case "DecodeString":
		var s string
		p, err := rjson.DecodeString(data, &s, nil)
		return s, p, err
	case "ValueReader.ReadValue":
		return d.vr.ReadValue(data)
	case "ReadValue":
		return rjson.ReadValue(data)
	}
	// nested handler traversal
	var buf *rjson.Buffer
	switch act {
	case "Handle/shared":
		buf = &d.shared
	case "Handle/own":
		buf = &rjson.Buffer{}
	}
	if tt == rjson.ArrayStartType {
		arr := []interface{}{}
		p, err := rjson.HandleArrayValues(data, rjson.ArrayValueHandlerFunc(func(d2 []byte) (int, error) {
			v, pp, err := d.value(d2, true)
			if err != nil {
				return pp, err
			}
			arr = append(arr, v)
			return pp, nil
		}), buf)
		return arr, p, err
	}
	m := map[string]interface{}{}
	p, err := rjson.HandleObjectValues(data, rjson.ObjectValueHandlerFunc(func(key, d2 []byte) (int, error) {
		k, _, kerr := rjson.UnescapeStringContent(key, nil)
		if kerr != nil {
			return 0, kerr
		}
		v, pp, err := d.value(d2, true)
		if err != nil {
			return pp, err
		}
		m[string(k)] = v
		return pp, nil
	}), buf)
	return m, p, err
}

// checkComposition runs one decoder of the family (chosen by c) on text and compares with direct
// decoding.
func checkComposition(text []byte, c *eng.Chooser) (bad, exp, got string) {
	sp, serr := rjson.SkipValue(text, nil)
	tv, tp, terr := rjson.ReadValue(text)
	d := &composed{c: c}
	v, p, err := d.value(text, false)
	desc := fmt.Sprintf("decoder %v", d.actions)
	if terr == nil {
		if err != nil {
			return "decoder-fails", fmt.Sprintf("p=%d nil (direct decoding succeeds)", tp), fmt.Sprintf("%s: %s", desc, errStr(err))
		}
		if p != sp || p != tp {
			return "final-offset", fmt.Sprintf("p=%d (SkipValue %d, ReadValue %d)", sp, sp, tp), fmt.Sprintf("%s: p=%d", desc, p)
		}
		if !d.partial && !ref.SameTree(v, tv) {
			return "tree", treeStr(tv), fmt.Sprintf("%s: %s", desc, treeStr(v))
		}
		return "", "", ""
	}
	// direct decoding fails
	if err == nil {
		if serr != nil && !d.usedFast {
			return "validating-decoder-accepts", "error (SkipValue fails on this input)", fmt.Sprintf("%s: p=%d nil", desc, p)
		}
		if !d.partial {
			return "full-decoder-accepts", "error (ReadValue fails on this input)", fmt.Sprintf("%s: p=%d nil", desc, p)
		}
	}
	return "", "", ""
}

func c08(r *eng.Run) {
	N := r.Pick(3, 4)
	maxComplete := r.Pick(6, 6)
	ds := eng.GenDocs(N, []string{"null", "true", "-1.5e1", `"a"`, `"` + "\\" + `n"`, "12", `"` + U("0041") + "\\" + `""`}, []string{`"a"`, `"` + U("0061") + `"`, `"b` + "\\" + `t"`})
	texts := ds.All()
	var execs, complete, bounded int64
	var distinct int64
	run := func(text string, fam string) {
		w := eng.Exact([]byte(text))
		atomic.AddInt64(&distinct, 1)
		st := eng.ExploreChoices(func(c *eng.Chooser) {
			var bad, exp, got string
			pan := guard(func() { bad, exp, got = checkComposition(w, c) })
			if pan != "" {
				r.Violation(eng.Replay{Engine: "compose", Entry: "decoder family", Sig: "panic/" + shortSig(w), InputB64: w, Choices: append([]int(nil), c.Trace...), Expected: "returns normally", Got: "panic: " + pan})
				return
			}
			if bad != "" {
				r.Violation(eng.Replay{Engine: "compose", Entry: "decoder family", Sig: bad + "/" + fam + "/" + shortSig(w), InputB64: w, Choices: append([]int(nil), c.Trace...), Expected: exp, Got: got})
			}
		}, maxComplete, devBound(maxComplete))
		atomic.AddInt64(&execs, int64(st.Executions))
		if st.Complete {
			atomic.AddInt64(&complete, 1)
		} else {
			atomic.AddInt64(&bounded, 1)
		}
	}
	eng.Parallel(len(texts), func(i int) {
		run(texts[i], "tree")
		run(eng.Style(texts[i], 1), "tree-ws")
	})
	// one size up: every decoder within one deviation of the all-default decoder and of each
	// uniform alternative is not enumerated here; only <= 1 deviation from the default
	next := eng.GenDocs(N+1, []string{"null", "-1.5e1", `"` + "\\" + `n"`}, []string{`"a"`, `"` + U("0061") + `"`}).BySize[N+1]
	save := maxComplete
	maxComplete = 0
	eng.Parallel(len(next), func(i int) { run(next[i], "tree-next-size") })
	maxComplete = save
	r.Set("next_size_texts_one_deviation", len(next))
	// malformed inputs: distance-1 corruptions of the texts with <= 2 nodes (3 in thorough)
	var corr []string
	corr = append(corr, ds.BySize[1]...)
	corr = append(corr, ds.BySize[2]...)
	if r.Thorough() {
		corr = append(corr, ds.BySize[3]...)
	}
	eng.Parallel(len(corr), func(i int) {
		eng.Corruptions(corr[i], corruptAlpha, func(s string) { run(s, "corruption") })
	})
	// a few larger documents with bounded deviations
	for _, t := range []string{`{"k":` + strings.Repeat("[", 20) + `1` + strings.Repeat("]", 20) + `,"z":2}`, `[` + strings.Repeat(`{"a":`, 18) + `"x"` + strings.Repeat("}", 18) + `,[1]]`, `{"a":[1,{"b":"x","c":[true,null]}],"d":{"e":{"f":[]}}}`, `[[1,2],[3,[4,[5,"six"]]],{"a":{}}]`, ` { "k" : [ 1e2 , "` + "\\" + `"" ] , "` + U("006b") + `" : null } x`} {
		run(t, "large")
	}
	r.Set("evaluations", int(execs))
	r.Set("distinct_nontrivial", int(distinct))
	r.Set("states", int(distinct))
	r.Set("transitions", int(execs))
	r.Set("traces_validated_against_impl", int(execs))
	r.Set("texts_with_all_decoders", int(complete))
	r.Set("texts_with_deviation_bounded_decoders", int(bounded))
	r.Set("e2_texts_by_nodes", ds.Count())
	r.Set("rule", "E2 x choice: every JSON text with <= N nodes over a leaf/key menu (two whitespace styles) and every distance-1 corruption of the smaller ones; for each text the stateless choice explorer enumerates every decoder of the composition family (per value: typed Read*/Decode*, SkipValue, SkipValueFast, return 0 inside a handler, nested Handle*Values with shared/own/nil buffer, ValueReader.ReadValue, ReadValue), complete for <= maxComplete choice points, else <= 2 deviations from the default. states = distinct texts, transitions = decoder executions. Oracle: SkipValue's offset and ReadValue's tree on the same text; validating decoders must fail where direct decoding fails.")
	r.Sample(map[string]interface{}{"kind": "text+decoder", "text": `{"a":[true,"a"]}`, "decoder": []string{"Handle/shared", "Handle/nil", "DecodeBool", "return0"}})
	r.Assume("the decoder family is the stated menu; typed integer readers are not part of it (a decoder choosing ReadInt64 for 1.5 fails by its own choice)")
}

func devBound(maxComplete int) int {
	if maxComplete == 0 {
		return 1
	}
	return 2
}
