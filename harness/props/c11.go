package props

import (
	"fmt"

	"github.com/willabides/rjson"

	"verifharness/eng"
	"verifharness/ref"
)

func init() {
	Registry["C11"] = c11
	Replayers["C11"] = func(rp *eng.Replay) (bool, string) {
		bad, _, exp, got := checkFast(rp.InputB64, ref.Run(rp.InputB64), usedBuffer())
		return bad != "", fmt.Sprintf("%s expected %s got %s", bad, exp, got)
	}
}

func checkFast(w []byte, a *ref.PDA, used *rjson.Buffer) (string, bool, string, string) {
	rok, rend := a.FirstValue()
	p0, err0 := rjson.SkipValue(w, nil)
	if (err0 == nil) != rok || (rok && p0 != rend) {
		// SkipValue itself disagrees with the reference: that is C02's business, not an
		// oracle for C11; compare against the reference, which C02 validates against json.
	}
	bufs := []*rjson.Buffer{nil, {}, used}
	names := []string{"nil", "fresh", "used"}
	for i, b := range bufs {
		p, err := rjson.SkipValueFast(w, b)
		if rok && (err != nil || p != rend) {
			return "SkipValueFast/" + names[i], false, okStr(true, rend), okStr(err == nil, p) + " " + errStr(err)
		}
		if err0 == nil && (err != nil || p != p0) {
			return "SkipValueFast-vs-SkipValue/" + names[i], false, okStr(true, p0), okStr(err == nil, p) + " " + errStr(err)
		}
		if err == nil && (p < 0 || p > len(w)) {
			return "SkipValueFast/range/" + names[i], false, "0<=p<=len", fmt.Sprint(p)
		}
	}
	return "", false, "", ""
}

func c11(r *eng.Run) {
	D := r.Pick(2, 3)
	K := r.Pick(1, 2)
	used := usedBuffer()
	sp := e1Spec{
		entry:  "SkipValueFast",
		probe:  func(w []byte) { rjson.SkipValueFast(w, nil) },
		probes: []func([]byte){func(w []byte) { rjson.SkipValue(w, nil) }},
		check:  func(w []byte, a *ref.PDA) (string, bool, string, string) { return checkFast(w, a, used) },
		reset:  func() { used = usedBuffer() },
		// expanded while SkipValue / the reference is alive (C11 only constrains inputs on which
		// SkipValue succeeds); the fast machine being alive on its own does not extend the search
		alive:        func(w []byte, a *ref.PDA) bool { return a.Alive() && !(a.Phase == ref.PDone) },
		refAliveOnly: true,
	}
	res := runE1(r, sp, D, K, r.Pick(300000, 3000000))
	e1Evidence(r, D, K, res)
	coverageReport(r, "skipValueFast", "skipValue")
	arenaRefillPass(r, "C11")
	runFamily(r, "long-runs", "SkipValueFast", longRunFamily(r.Thorough()), sp.check)
	runFamily(r, "string-shapes", "SkipValueFast", stringShapeFamily(), sp.check)
	runFamily(r, "depth-sites", "SkipValueFast", depthSiteFamily(70), sp.check)
	runPairSweep(r, "SkipValueFast", pairCtxAll, sp.check)
	// deep family: fast skipping at the depth limit must agree wherever SkipValue succeeds
	deep := 0
	for _, unit := range [][2]string{{"[", "]"}, {`{"k":`, "}"}, {`[{"a":`, "}]"}} {
		for _, d := range []int{4999, 5000, 9999, 10000, 10001} {
			n := d
			if len(unit[0]) > 1 && unit[0][0] == '[' && unit[0][1] == '{' {
				n = d / 2
			}
			var w []byte
			for i := 0; i < n; i++ {
				w = append(w, unit[0]...)
			}
			w = append(w, `"]}\""`...)
			for i := 0; i < n; i++ {
				w = append(w, unit[1]...)
			}
			w = append(w, ' ')
			a := ref.Run(w)
			deep++
			if bad, _, exp, got := checkFast(w, a, used); bad != "" {
				r.Violation(eng.Replay{Engine: "deep", Entry: "SkipValueFast", Sig: fmt.Sprintf("%s/deep/%s/d=%d", bad, unit[0], d), InputB64: w, Expected: exp, Got: got})
			}
		}
	}
	r.Set("deep_family_runs", deep)
	r.Add("evaluations", deep)
	r.Set("rule", e1Rule+" Product key: (skipValueFast configuration, skipValue configuration, reference state). Oracle: wherever the reference/SkipValue succeeds, SkipValueFast succeeds with the same offset (nil/fresh/used buffers).")
	r.Sample(map[string]interface{}{"kind": "pfx-node", "input": `[{"a]":"}\"["}`, "note": "followed by all 256 bytes"})
	r.Assume("nesting bound D in the BFS; only inputs on which SkipValue succeeds constrain SkipValueFast")
}
