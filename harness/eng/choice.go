package eng

import "fmt"

// Chooser is the stateless choice explorer's per-execution handle: an execution is a function of
// (input, choice vector). Choose replays the prefix, then answers 0 (the default, simplest
// answer) and records the menu size at every point.
type Chooser struct {
	prefix []int
	Trace  []int
	Menus  []int
}

func (c *Chooser) Choose(n int) int {
	i := len(c.Trace)
	v := 0
	if i < len(c.prefix) {
		v = c.prefix[i]
		if v >= n {
			panic(fmt.Sprintf("choice explorer: replay diverged: choice %d out of menu %d at point %d", v, n, i))
		}
	}
	c.Trace = append(c.Trace, v)
	c.Menus = append(c.Menus, n)
	return v
}

// ChoiceStats reports what an exploration covered.
// MaxDeviationPositions thins the deviation positions of very long executions (0 = never).
var MaxDeviationPositions = 0

type ChoiceStats struct {
	Thinned    bool
	Executions int
	Complete   bool // every choice vector was run
	MaxPoints  int
}

// ExploreChoices runs `run` for every choice vector (complete=true) as long as an execution has
// at most maxComplete points; executions with more points are explored up to `bound`
// deviations (non-default answers). run must be deterministic given the vector.
func ExploreChoices(run func(c *Chooser), maxComplete, bound int) ChoiceStats {
	st := ChoiceStats{Complete: true}
	var rec func(prefix []int, dev int)
	rec = func(prefix []int, dev int) {
		c := &Chooser{prefix: prefix}
		run(c)
		st.Executions++
		if len(c.prefix) > len(c.Trace) {
			panic("choice explorer: replay diverged: execution ended before the prefix was consumed")
		}
		if len(c.Trace) > st.MaxPoints {
			st.MaxPoints = len(c.Trace)
		}
		limited := len(c.Trace) > maxComplete
		// very long executions (thousands of choice points): deviation positions are thinned out
		// to at most ~MaxDeviationPositions per execution; reported as not complete
		stride := 1
		if MaxDeviationPositions > 0 && len(c.Trace) > MaxDeviationPositions {
			stride = len(c.Trace)/MaxDeviationPositions + 1
			st.Complete = false
			st.Thinned = true
		}
		for i := len(prefix); i < len(c.Trace); i++ {
			if stride > 1 && i%stride != 0 {
				continue
			}
			if limited && dev+1 > bound {
				st.Complete = false
				break
			}
			for alt := 1; alt < c.Menus[i]; alt++ {
				np := append(append([]int(nil), c.Trace[:i]...), alt)
				rec(np, dev+1)
			}
		}
	}
	rec(nil, 0)
	return st
}

// ReplayChoices runs one recorded vector.
func ReplayChoices(run func(c *Chooser), vec []int) {
	run(&Chooser{prefix: vec})
}
