package eng

// E2 "docs": bounded-exhaustive structured documents. All JSON texts the grammar generates with
// at most N value nodes over a leaf menu and a key menu, in size order, plus distance-1
// corruptions.

// DocSet holds all texts by node count.
type DocSet struct {
	BySize [][]string // BySize[n] = all value texts with exactly n nodes (index 0 unused)
}

// GenDocs enumerates every value text with <= N nodes. leaves are scalar texts, keys are key
// tokens including their quotes. sep styles are applied by Styles, not here (compact form).
func GenDocs(N int, leaves, keys []string) *DocSet {
	ds := &DocSet{BySize: make([][]string, N+1)}
	// seqA[m] = all comma-joined element sequences with total size m (arrays);
	// seqO[m] = all comma-joined member sequences with total size m (objects)
	seqA := make([][]string, N+1)
	seqO := make([][]string, N+1)
	seqA[0] = []string{""}
	seqO[0] = []string{""}
	for n := 1; n <= N; n++ {
		var vals []string
		if n == 1 {
			vals = append(vals, leaves...)
			vals = append(vals, "[]", "{}")
		} else {
			for _, s := range seqA[n-1] {
				vals = append(vals, "["+s+"]")
			}
			for _, s := range seqO[n-1] {
				vals = append(vals, "{"+s+"}")
			}
		}
		ds.BySize[n] = vals
		if n == N {
			break
		}
		// extend sequences: total size n = first element of size k followed by a sequence of size n-k
		for k := 1; k <= n; k++ {
			for _, v := range ds.BySize[k] {
				for _, rest := range seqA[n-k] {
					if rest == "" {
						seqA[n] = append(seqA[n], v)
					} else {
						seqA[n] = append(seqA[n], v+","+rest)
					}
				}
				for _, key := range keys {
					for _, rest := range seqO[n-k] {
						if rest == "" {
							seqO[n] = append(seqO[n], key+":"+v)
						} else {
							seqO[n] = append(seqO[n], key+":"+v+","+rest)
						}
					}
				}
			}
		}
	}
	return ds
}

// All returns every text in size order.
func (ds *DocSet) All() []string {
	var out []string
	for n := 1; n < len(ds.BySize); n++ {
		out = append(out, ds.BySize[n]...)
	}
	return out
}

// Count returns the number of texts per size.
func (ds *DocSet) Count() []int {
	c := make([]int, len(ds.BySize))
	for i, v := range ds.BySize {
		c[i] = len(v)
	}
	return c
}

// Style rewrites a compact text into one of the whitespace styles: 0 compact, 1 a space after
// every structural byte and around the document, 2 newline/tab/CR mixtures. Structural bytes
// inside strings are left alone.
func Style(text string, style int) string {
	if style == 0 {
		return text
	}
	var out []byte
	ws := " "
	if style == 2 {
		ws = "\r\n\t"
	}
	out = append(out, ws...)
	in := false
	for i := 0; i < len(text); i++ {
		c := text[i]
		if in {
			out = append(out, c)
			if c == '\\' && i+1 < len(text) {
				i++
				out = append(out, text[i])
			} else if c == '"' {
				in = false
			}
			continue
		}
		switch c {
		case '"':
			in = true
			out = append(out, c)
		case '[', '{', ',', ':':
			out = append(out, c)
			out = append(out, ws...)
		case ']', '}':
			out = append(out, ws...)
			out = append(out, c)
		default:
			out = append(out, c)
		}
	}
	out = append(out, ws...)
	return string(out)
}

// Corruptions calls f on every distance-1 corruption of text over the structural alphabet:
// delete one byte, replace one byte by each byte of alpha, truncate at every position.
func Corruptions(text string, alpha string, f func(string)) {
	b := []byte(text)
	for i := range b {
		f(string(b[:i]))                                          // truncate
		f(string(append(append([]byte{}, b[:i]...), b[i+1:]...))) // delete
		for j := 0; j < len(alpha); j++ {
			if alpha[j] == b[i] {
				continue
			}
			c := append([]byte{}, b...)
			c[i] = alpha[j]
			f(string(c))
		}
	}
}
