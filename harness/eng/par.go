package eng

import (
	"runtime"
	"sync"
)

// Parallel runs f(i) for i in [0,n) on all cores. f must not touch hook state.
func Parallel(n int, f func(i int)) {
	workers := runtime.NumCPU()
	if workers > n {
		workers = n
	}
	if workers < 1 {
		workers = 1
	}
	var wg sync.WaitGroup
	ch := make(chan int, 256)
	for w := 0; w < workers; w++ {
		wg.Add(1)
		go func() {
			defer wg.Done()
			for i := range ch {
				f(i)
			}
		}()
	}
	for i := 0; i < n; i++ {
		ch <- i
	}
	close(ch)
	wg.Wait()
}
