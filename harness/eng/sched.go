package eng

import (
	"fmt"
)

// E4 "sched": cooperative scheduler. One goroutine runs at a time (token hand-off over
// channels); at every scheduling point the choice explorer decides who continues. Choice 0 =
// the running goroutine continues (if it can), so a non-zero choice is a preemption / deviation.

// MaxSchedPoints is the per-execution horizon.
var MaxSchedPoints = 200000

// Access is one logged use of a package-level variable.
type Access struct {
	G     int
	Var   int
	Kind  int // 0 read, 1 write, 2 address taken
	Locks string
}

type Sched struct {
	n       int
	resume  []chan struct{}
	done    []bool
	cur     int
	c       *Chooser
	Log     []Access
	Points  int
	Switch  int
	finish  chan struct{}
	locks   []map[interface{}]bool
	Dead    bool // deadlock: a goroutine had to yield and nobody else could run
	MaxLog  int
	blocked []bool
}

// NewSched prepares a run of n goroutines driven by chooser c.
func NewSched(n int, c *Chooser) *Sched {
	s := &Sched{n: n, c: c, finish: make(chan struct{}), MaxLog: 20000}
	for i := 0; i < n; i++ {
		s.resume = append(s.resume, make(chan struct{}))
		s.done = append(s.done, false)
		s.locks = append(s.locks, map[interface{}]bool{})
		s.blocked = append(s.blocked, false)
	}
	return s
}

// enabled lists runnable goroutines in canonical order: the running one first (if runnable),
// then ascending ids.
func (s *Sched) enabled(includeCur bool) []int {
	var out []int
	if includeCur && !s.done[s.cur] {
		out = append(out, s.cur)
	}
	for i := 0; i < s.n; i++ {
		if i != s.cur && !s.done[i] {
			out = append(out, i)
		}
	}
	return out
}

// Point is a scheduling point of the running goroutine.
func (s *Sched) Point() {
	s.Points++
	if s.Points > MaxSchedPoints {
		// explicit horizon: an execution that passes this many scheduling points is treated as
		// not terminating under this schedule; unwinding through the library is safe because the
		// goroutine body recovers
		panic(fmt.Sprintf("horizon: more than %d scheduling points in one execution (no termination under this schedule)", MaxSchedPoints))
	}
	en := s.enabled(true)
	if len(en) <= 1 {
		return
	}
	ch := s.c.Choose(len(en))
	next := en[ch]
	if next == s.cur {
		return
	}
	s.switchTo(next)
}

func (s *Sched) switchTo(next int) {
	me := s.cur
	s.Switch++
	s.cur = next
	s.resume[next] <- struct{}{}
	<-s.resume[me]
}

// Yield is called by a goroutine that cannot proceed (waiting for a lock): another goroutine
// must run.
func (s *Sched) Yield() {
	en := s.enabled(false)
	if len(en) == 0 {
		s.Dead = true
		panic("cooperative scheduler: deadlock (waiting goroutine and nobody else can run)")
	}
	ch := 0
	if len(en) > 1 {
		ch = s.c.Choose(len(en))
	}
	s.switchTo(en[ch])
}

// LogAccess records an access by the running goroutine.
func (s *Sched) LogAccess(v, kind int) {
	if len(s.Log) >= s.MaxLog {
		return
	}
	ls := ""
	for l := range s.locks[s.cur] {
		ls += fmt.Sprintf("%p,", l)
	}
	s.Log = append(s.Log, Access{G: s.cur, Var: v, Kind: kind, Locks: ls})
}

// LockOp tracks the lockset of the running goroutine.
func (s *Sched) LockOp(m interface{}, lock bool) {
	if lock {
		s.locks[s.cur][m] = true
	} else {
		delete(s.locks[s.cur], m)
	}
}

// Run executes the bodies to completion under the scheduler. A panic in a body is recovered and
// returned (the run is then abandoned: remaining goroutines are released to finish freely).
func (s *Sched) Run(bodies []func()) (panicked string) {
	pan := make(chan string, s.n)
	for i := range bodies {
		i := i
		go func() {
			<-s.resume[i]
			defer func() {
				if x := recover(); x != nil {
					pan <- fmt.Sprint(x)
				}
				s.done[i] = true
				en := s.enabled(false)
				if len(en) == 0 {
					close(s.finish)
					return
				}
				ch := 0
				if len(en) > 1 && !s.Dead {
					ch = s.c.Choose(len(en))
				}
				s.cur = en[ch]
				s.resume[s.cur] <- struct{}{}
			}()
			bodies[i]()
		}()
	}
	// first goroutine to run
	first := 0
	if s.n > 1 {
		first = s.c.Choose(s.n)
	}
	s.cur = first
	s.resume[first] <- struct{}{}
	<-s.finish
	select {
	case p := <-pan:
		return p
	default:
		return ""
	}
}

// Conflicts returns pairs of logged accesses to the same variable by different goroutines with
// at least one definite write and no common lock.
func (s *Sched) Conflicts() []string {
	type key struct{ v int }
	byVar := map[int][]Access{}
	for _, a := range s.Log {
		byVar[a.Var] = append(byVar[a.Var], a)
	}
	var out []string
	for v, as := range byVar {
		found := false
		for i := 0; i < len(as) && !found; i++ {
			if as[i].Kind != 1 {
				continue
			}
			for j := 0; j < len(as); j++ {
				if as[j].G == as[i].G {
					continue
				}
				if commonLock(as[i].Locks, as[j].Locks) {
					continue
				}
				out = append(out, fmt.Sprintf("var#%d written by goroutine %d and accessed (kind %d) by goroutine %d", v, as[i].G, as[j].Kind, as[j].G))
				found = true
				break
			}
		}
	}
	return out
}

func commonLock(a, b string) bool {
	if a == "" || b == "" {
		return false
	}
	i := 0
	for i < len(a) {
		j := i
		for j < len(a) && a[j] != ',' {
			j++
		}
		tok := a[i:j] + ","
		for k := 0; k+len(tok) <= len(b); k++ {
			if b[k:k+len(tok)] == tok && (k == 0 || b[k-1] == ',') {
				return true
			}
		}
		i = j + 1
	}
	return false
}
