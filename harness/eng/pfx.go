package eng

// E1 "pfx": explicit-state search over parser configurations, one input byte per transition.
// A node is an input w; visiting it runs the real function(s) on w from scratch. Every node is
// extended by all 256 bytes; a child is expanded further iff its key is new and the system says
// it is alive and inside the bound.

// Visit runs the system on w, checks the oracles (reporting through the Run) and returns the
// dedup key and whether the node should be expanded.
type Visit func(w []byte) (key string, expand bool)

type PfxStats struct {
	States      int // distinct expanded keys
	Transitions int // executions of Visit (nodes checked)
	MaxLen      int
	Capped      bool
	// Loops are the (node, byte) pairs whose child has the node's own key (self loops of the
	// product state: saturated counters, plain string bytes, whitespace runs), one representative
	// per (PumpKey(node key), byte class). They seed the pumping pass.
	Loops []Loop
}

// Loop is a self-loop witness.
type Loop struct {
	W []byte
	B byte
}

// PumpKey extracts from a node key the part by which pumping representatives are deduplicated
// (set by the driver; default: the whole key).
var PumpKey = func(key string) string { return key }

// PfxBFS explores from the roots (nil root = the empty input). maxStates caps the search
// (reported as Capped, never silently).
func PfxBFS(r *Run, roots [][]byte, visit Visit, maxStates int) PfxStats {
	return PfxBFSDelta(r, roots, visit, maxStates, 0)
}

// Complete, when set, returns the shortest completion of an input to a full document (used by
// the recovery exploration).
var Complete func(w []byte) []byte

// SuffixMenu is appended to every expanded node (see PfxBFSDelta).
var SuffixMenu = []string{"nan", "NaN", "inf", "Infinity", "+inf", "-inf", "-Infinity", "+1", "0x10", "1_0", "5.", "TRUE", "Null", "nil", "undefined", "'x'", ".5", ".5e1", "e1", "E+1", "e-0", "5", "00", "-", "+1", "null", "true", "false", "0", "-1", "1.5e1", `"x"`, "[]", "{}", " null", "\tnull ", "nullx", "ull", "rue", ",null", ":null", "]", "}", "null]", "null}", `"x":null}`}

// NonJSONSpaces are white space in Unicode / Go's unicode.IsSpace / other parsers, not in JSON.
var NonJSONSpaces = []string{"\v", "\f", "\x85", "\xa0", "\x00", "\xc2\x85", "\xc2\xa0", "\xe1\x9a\x80", "\xe2\x80\x83", "\xe2\x80\xa8", "\xe2\x80\xa9", "\xe3\x80\x80", "\xef\xbb\xbf", "\x1c", "\x1f",
	// code points whose low byte is a JSON white space byte (a scanner that classifies runes by their low byte)
	"\u0109", "\u010a", "\u010d", "\u0120", "\u2009", "\u200a", "\u200d", "\u2020", "\u3009", "\u300a", "\u3020", "\U0001f609", "\U0001f620"}

// classReps has one representative byte per byte class.
var classReps = func() []byte {
	seen := map[byte]bool{}
	var out []byte
	for b := 0; b < 256; b++ {
		c := ByteClass(byte(b))
		if !seen[c] {
			seen[c] = true
			out = append(out, byte(b))
		}
	}
	return out
}()

// PfxBFSDelta is PfxBFS with "recovery" exploration for code without liveness hooks: children
// that are not expanded (dead according to the reference) are, one representative per byte class
// of the last byte, extended by one more level — delta=1: by one representative per class,
// delta=2: by all 256 bytes — so that an implementation that wrongly survives a forbidden byte
// cannot hide behind the reference's sink state.
func PfxBFSDelta(r *Run, roots [][]byte, visit Visit, maxStates int, delta int) PfxStats {
	var st PfxStats
	seen := map[string]struct{}{}
	var queue [][]byte
	var qkeys []string
	loopSeen := map[string]struct{}{}
	if len(roots) == 0 {
		roots = [][]byte{nil}
	}
	// bytes and sequences that other languages / libraries treat as white space but JSON does not:
	// each followed by every token of the suffix menu, at the start and after a real space
	for _, pre := range NonJSONSpaces {
		for _, lead := range []string{"", " "} {
			visit(Exact([]byte(lead + pre)))
			st.Transitions++
			for _, m := range SuffixMenu {
				visit(Exact([]byte(lead + pre + m)))
				visit(Exact([]byte(m + pre)))
				st.Transitions += 2
			}
		}
	}
	for _, rt := range roots {
		k, ex := visit(rt)
		st.Transitions++
		if _, ok := seen[k]; !ok && ex {
			seen[k] = struct{}{}
			queue = append(queue, append([]byte(nil), rt...))
			qkeys = append(qkeys, k)
		}
	}
	for len(queue) > 0 {
		w := queue[0]
		queue = queue[1:]
		wk := qkeys[0]
		qkeys = qkeys[1:]
		if len(w) > st.MaxLen {
			st.MaxLen = len(w)
		}
		child := make([]byte, len(w)+1)
		copy(child, w)
		var comp []byte
		// every expanded state is also followed by whole tokens from the suffix menu ("what if a
		// complete, possibly wrong, token follows here"): reaches multi-byte continuations that
		// byte-at-a-time recovery exploration cannot
		var wcomp []byte
		if Complete != nil {
			wcomp = Complete(w)
		}
		for _, m := range SuffixMenu {
			x := append(append([]byte(nil), w...), m...)
			visit(Exact(x))
			st.Transitions++
			if len(wcomp) > 0 {
				// ... and then the state's own shortest completion, so that a token the
				// implementation wrongly absorbed here ends in an accepted document
				visit(Exact(append(x, wcomp...)))
				st.Transitions++
			}
		}
		for b := 0; b < 256; b++ {
			child[len(w)] = byte(b)
			k, ex := visit(child)
			st.Transitions++
			if !ex {
				if delta > 0 {
					// recovery exploration past a child that is not expanded: continue it with
					// the parent's shortest completion (an implementation that wrongly survived
					// the byte now accepts), and with further bytes
					if Complete != nil {
						if comp == nil {
							comp = Complete(w)
							if comp == nil {
								comp = []byte{}
							}
						}
						if len(comp) > 0 {
							visit(Exact(append(append([]byte(nil), child...), comp...)))
							st.Transitions++
						}
					}
					gc := make([]byte, len(child)+1)
					copy(gc, child)
					if delta >= 2 {
						for _, c := range classReps {
							gc[len(child)] = c
							visit(gc)
							st.Transitions++
						}
					} else {
						for _, c := range []byte{'"', '0', ' ', ']', '}'} {
							gc[len(child)] = c
							visit(gc)
							st.Transitions++
						}
					}
				}
				continue
			}
			if k == wk {
				lk := PumpKey(k) + "\x00" + string(ByteClass(byte(b)))
				if _, ok := loopSeen[lk]; !ok {
					loopSeen[lk] = struct{}{}
					st.Loops = append(st.Loops, Loop{W: append([]byte(nil), w...), B: byte(b)})
				}
			}
			if _, ok := seen[k]; ok {
				continue
			}
			if len(seen) >= maxStates {
				st.Capped = true
				continue
			}
			seen[k] = struct{}{}
			queue = append(queue, append([]byte(nil), child...))
			qkeys = append(qkeys, k)
		}
		if r.TooMany() {
			st.Capped = true
			break
		}
	}
	st.States = len(seen)
	return st
}

// ByteClass maps a byte to a small class id used only to refine dedup keys (Appendix C of
// DESIGN.md). Transitions always range over all 256 bytes.
func ByteClass(b byte) byte {
	switch b {
	case '"', '\\', '/', 'b', 'f', 'n', 'r', 't', 'u', '[', ']', '{', '}', ':', ',', '-', '+', '.', 'e', 'E', '0', '1', '9', 'a', 'l', 's', ' ', '\t', '\n', '\r':
		return b
	}
	switch {
	case b >= '2' && b <= '8':
		return '2'
	case (b >= 'A' && b <= 'F') || b == 'c' || b == 'd':
		return 'A'
	case (b >= 'a' && b <= 'z') || (b >= 'A' && b <= 'Z'):
		return 'x'
	case b < 0x20:
		return 0x01
	case b == 0x7f:
		return 0x7f
	case b < 0x80:
		return '!'
	case b <= 0x8f:
		return 0x80
	case b <= 0x9f:
		return 0x90
	case b <= 0xbf:
		return 0xa0
	case b <= 0xc1:
		return 0xc0
	case b <= 0xdf:
		return 0xc2
	case b == 0xe0:
		return 0xe0
	case b <= 0xec:
		return 0xe1
	case b == 0xed:
		return 0xed
	case b <= 0xef:
		return 0xee
	case b == 0xf0:
		return 0xf0
	case b <= 0xf3:
		return 0xf1
	case b == 0xf4:
		return 0xf4
	}
	return 0xf5
}

// ClassSuffix returns the classes of the last k bytes of w.
func ClassSuffix(w []byte, k int) string {
	if k > len(w) {
		k = len(w)
	}
	b := make([]byte, k)
	for i := 0; i < k; i++ {
		b[i] = ByteClass(w[len(w)-k+i])
	}
	return string(b)
}

// Pump is the pumping pass: for every self-loop witness (w, b) it runs visit on
// w b^n c b^m and on the same input followed by complete(input), for n in [0, maxN], every byte
// c, m = tail. It reaches what saturated counters hide: behaviour that depends on the length of
// a run (8/16-byte chunked fast paths, digit-count thresholds). Returns executions.
func Pump(r *Run, loops []Loop, visit Visit, complete func([]byte) []byte, maxN, tail int) int {
	n := 0
	for _, l := range loops {
		for k := 0; k <= maxN; k++ {
			base := append([]byte(nil), l.W...)
			for i := 0; i < k; i++ {
				base = append(base, l.B)
			}
			// the completion is that of the pumped prefix (the state the run loops in), so that an
			// implementation that wrongly survives byte c inside the run is seen to accept
			var baseComp []byte
			if complete != nil {
				baseComp = complete(base)
			}
			for c := 0; c < 256; c++ {
				x := append(append([]byte(nil), base...), byte(c))
				for i := 0; i < tail; i++ {
					x = append(x, l.B)
				}
				visit(Exact(x))
				n++
				if complete != nil {
					suf := complete(x)
					if len(suf) == 0 {
						suf = baseComp
					}
					if len(suf) > 0 {
						visit(Exact(append(x, suf...)))
						n++
					}
				}
			}
		}
		if r.TooMany() {
			break
		}
	}
	return n
}

var repSet = func() map[byte]bool {
	m := map[byte]bool{}
	for _, b := range classReps {
		m[b] = true
	}
	return m
}()

func isRep(b byte) bool { return repSet[b] }

// Exact returns a copy of b whose capacity equals its length, so that any read past the end of
// the input (re-slicing beyond len) fails loudly instead of silently seeing spare capacity.
func Exact(b []byte) []byte {
	c := make([]byte, len(b))
	copy(c, b)
	return c
}
