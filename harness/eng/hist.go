package eng

// E3 "hist": explicit-state search over call histories on one long-lived object. A state is the
// object reached by replaying a history on a fresh instance (live objects are not copied); a
// transition is one API call from a finite op alphabet; the dedup key is the object's canonical
// state. BFS to closure (fixpoint of the key set) when reached within the caps.

type HistStats struct {
	States      int
	Transitions int
	MaxDepth    int
	Closed      bool // the key set reached a fixpoint: all finite call sequences over the alphabet are covered
}

// HistSys is the system under exploration.
type HistSys interface {
	// Replay builds a fresh object and applies the history; it returns the canonical key.
	// If last >= 0 the op `last` is then applied as the transition under test and checked.
	Replay(hist []int, last int) (key string)
	NumOps() int
}

// HistBFS explores histories breadth first. maxStates / maxDepth cap the search.
func HistBFS(r *Run, sys HistSys, maxStates, maxDepth int) HistStats {
	var st HistStats
	seen := map[string]bool{}
	k0 := sys.Replay(nil, -1)
	seen[k0] = true
	type node struct{ hist []int }
	queue := []node{{nil}}
	st.Closed = true
	for len(queue) > 0 {
		n := queue[0]
		queue = queue[1:]
		if len(n.hist) > st.MaxDepth {
			st.MaxDepth = len(n.hist)
		}
		for op := 0; op < sys.NumOps(); op++ {
			k := sys.Replay(n.hist, op)
			st.Transitions++
			if seen[k] {
				continue
			}
			if len(seen) >= maxStates || len(n.hist)+1 >= maxDepth {
				st.Closed = false
				if len(seen) < maxStates {
					seen[k] = true // counted, not expanded
				}
				continue
			}
			seen[k] = true
			queue = append(queue, node{append(append([]int(nil), n.hist...), op)})
		}
		if r.TooMany() {
			st.Closed = false
			break
		}
	}
	st.States = len(seen)
	return st
}
