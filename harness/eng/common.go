// Package eng holds the exploration engines and the run bookkeeping shared by all property
// drivers: violations + replay files, known findings, evidence.
package eng

import (
	"bufio"
	"crypto/sha1"
	"encoding/hex"
	"encoding/json"
	"fmt"
	"os"
	"path/filepath"
	"runtime"
	"sort"
	"strings"
	"sync"
	"sync/atomic"
	"time"
)

// Run is the context of one check execution.
type Run struct {
	ID       string
	Tier     string // quick | thorough
	Seed     int64
	Out      string // evidence path
	Replays  string // directory for replay files
	Known    []Finding
	Level    string
	RepoHead string

	mu          sync.Mutex
	start       time.Time
	Cov         map[string]interface{}
	Assumptions []string
	Samples     []interface{}
	violations  int
	knownHit    map[string]int
	vioSigs     map[string]bool
	Exhaustive  bool
	notes       []string
}

// Finding is one line of known_findings.txt.
type Finding struct {
	Kind     string // finding | fixed
	Property string
	Sig      string
	Text     string
}

func LoadFindings(path string) []Finding {
	f, err := os.Open(path)
	if err != nil {
		return nil
	}
	defer f.Close()
	var out []Finding
	sc := bufio.NewScanner(f)
	for sc.Scan() {
		l := strings.TrimSpace(sc.Text())
		if l == "" || strings.HasPrefix(l, "#") {
			continue
		}
		var fd Finding
		switch {
		case strings.HasPrefix(l, "finding:"):
			fd.Kind = "finding"
			l = strings.TrimSpace(strings.TrimPrefix(l, "finding:"))
		case strings.HasPrefix(l, "fixed:"):
			fd.Kind = "fixed"
			l = strings.TrimSpace(strings.TrimPrefix(l, "fixed:"))
		default:
			continue
		}
		for _, tok := range strings.Fields(l) {
			if strings.HasPrefix(tok, "property=") {
				fd.Property = strings.TrimPrefix(tok, "property=")
			} else if strings.HasPrefix(tok, "sig=") {
				fd.Sig = strings.TrimPrefix(tok, "sig=")
			}
		}
		fd.Text = l
		out = append(out, fd)
	}
	return out
}

func NewRun(id, tier string, seed int64, out, replays, known string) *Run {
	return &Run{ID: id, Tier: tier, Seed: seed, Out: out, Replays: replays, Known: LoadFindings(known),
		start: time.Now(), Cov: map[string]interface{}{}, knownHit: map[string]int{}, vioSigs: map[string]bool{},
		Exhaustive: true, Level: "model_checking"}
}

func (r *Run) Thorough() bool { return r.Tier == "thorough" }

// Pick returns q for the quick tier and t for the thorough tier.
func (r *Run) Pick(q, t int) int {
	if r.Thorough() {
		return t
	}
	return q
}

// Replay is what is written for every violation.
type Replay struct {
	Property string                 `json:"property"`
	Engine   string                 `json:"engine"`
	Entry    string                 `json:"entry"`
	Sig      string                 `json:"sig"`
	InputB64 []byte                 `json:"input_b64,omitempty"`
	InputQ   string                 `json:"input_quoted,omitempty"`
	Choices  []int                  `json:"choices,omitempty"`
	History  []string               `json:"history,omitempty"`
	Extra    map[string]interface{} `json:"extra,omitempty"`
	Expected string                 `json:"expected"`
	Got      string                 `json:"got"`
	RepoHead string                 `json:"repo_head,omitempty"`
}

// Violation reports one violation. sig identifies the failure for the known-findings file
// (entry point / family-or-minimal-input / clause). Returns true if it was a known finding.
// At most maxPerSig replay files are written per signature; the count is always kept.
func (r *Run) Violation(rp Replay) bool {
	r.mu.Lock()
	defer r.mu.Unlock()
	rp.Property = r.ID
	rp.RepoHead = r.RepoHead
	if rp.InputB64 != nil && rp.InputQ == "" {
		q := fmt.Sprintf("%q", rp.InputB64)
		if len(q) > 400 {
			q = q[:400] + "…"
		}
		rp.InputQ = q
	}
	for _, k := range r.Known {
		if k.Kind == "finding" && k.Property == r.ID && k.Sig != "" && sigMatch(k.Sig, rp.Sig) {
			if r.knownHit[k.Sig] == 0 {
				fmt.Printf("KNOWN-FINDING: property=%s %s\n", r.ID, k.Text)
			}
			r.knownHit[k.Sig]++
			return true
		}
	}
	r.violations++
	if r.vioSigs[rp.Sig] {
		return false
	}
	r.vioSigs[rp.Sig] = true
	if len(r.vioSigs) > 25 {
		return false
	}
	_ = os.MkdirAll(r.Replays, 0o755)
	b, _ := json.MarshalIndent(rp, "", " ")
	h := sha1.Sum(b)
	path := filepath.Join(r.Replays, fmt.Sprintf("%s-%s.json", r.ID, hex.EncodeToString(h[:6])))
	_ = os.WriteFile(path, b, 0o644)
	fmt.Printf("VIOLATION property=%s replay=%s\n", r.ID, path)
	fmt.Printf("  entry=%s sig=%s input=%s choices=%v\n  expected: %s\n  got:      %s\n", rp.Entry, rp.Sig, rp.InputQ, rp.Choices, rp.Expected, rp.Got)
	return false
}

// sigMatch: a known signature matches if equal, or if it ends in '*' and is a prefix.
func sigMatch(known, sig string) bool {
	if strings.HasSuffix(known, "*") {
		return strings.HasPrefix(sig, strings.TrimSuffix(known, "*"))
	}
	return known == sig
}

func (r *Run) Violations() int { r.mu.Lock(); defer r.mu.Unlock(); return r.violations }

// TooMany tells drivers to stop exploring once enough violations have been collected.
func (r *Run) TooMany() bool { r.mu.Lock(); defer r.mu.Unlock(); return r.violations > 200 }

func (r *Run) Note(format string, a ...interface{}) {
	r.mu.Lock()
	defer r.mu.Unlock()
	s := fmt.Sprintf(format, a...)
	r.notes = append(r.notes, s)
	fmt.Println("note:", s)
}

// Inexhaustive records that some stated space was not completed (budget cap, degradation).
func (r *Run) Inexhaustive(why string) {
	r.mu.Lock()
	r.Exhaustive = false
	r.mu.Unlock()
	r.Note("not exhaustive: %s", why)
}

func (r *Run) Add(key string, n int) {
	r.mu.Lock()
	defer r.mu.Unlock()
	if v, ok := r.Cov[key].(int); ok {
		r.Cov[key] = v + n
	} else {
		r.Cov[key] = n
	}
}

func (r *Run) Set(key string, v interface{}) {
	r.mu.Lock()
	defer r.mu.Unlock()
	r.Cov[key] = v
}

func (r *Run) Get(key string) int {
	r.mu.Lock()
	defer r.mu.Unlock()
	v, _ := r.Cov[key].(int)
	return v
}

// Sample keeps up to 24 example cases for the evidence file.
func (r *Run) Sample(v interface{}) {
	r.mu.Lock()
	defer r.mu.Unlock()
	if len(r.Samples) < 24 {
		r.Samples = append(r.Samples, v)
	}
}

func (r *Run) Assume(s string) { r.Assumptions = append(r.Assumptions, s) }

// Finish writes the evidence file and returns the process exit code.
func (r *Run) Finish() int {
	r.mu.Lock()
	defer r.mu.Unlock()
	cov := r.Cov
	cov["exhaustive"] = r.Exhaustive
	if len(r.Samples) == 0 {
		r.Samples = append(r.Samples, "(no sample recorded)")
	}
	cov["samples"] = r.Samples
	if len(r.notes) > 0 {
		cov["notes"] = r.notes
	}
	if len(r.knownHit) > 0 {
		kh := map[string]int{}
		for k, v := range r.knownHit {
			kh[k] = v
		}
		cov["known_findings_matched"] = kh
	}
	// the schema's generic keys must exist for exploration-level evidence; for model_checking
	// the level's own keys are used when present.
	for _, k := range []string{"evaluations", "distinct_nontrivial"} {
		if _, ok := cov[k]; !ok {
			cov[k] = 0
		}
	}
	ev := map[string]interface{}{
		"property_id": r.ID,
		"tier":        r.Tier,
		"seed":        r.Seed,
		"level":       r.Level,
		"coverage":    cov,
		"assumptions": r.Assumptions,
		"wall_s":      time.Since(r.start).Seconds(),
		"violations":  r.violations,
	}
	if r.Assumptions == nil {
		ev["assumptions"] = []string{}
	}
	b, _ := json.MarshalIndent(ev, "", " ")
	_ = os.MkdirAll(filepath.Dir(r.Out), 0o755)
	if err := os.WriteFile(r.Out, b, 0o644); err != nil {
		fmt.Println("note: cannot write evidence:", err)
	}
	keys := make([]string, 0, len(cov))
	for k := range cov {
		if k != "samples" && k != "notes" {
			keys = append(keys, k)
		}
	}
	sort.Strings(keys)
	var sb strings.Builder
	for _, k := range keys {
		s := fmt.Sprint(cov[k])
		if len(s) > 80 {
			continue
		}
		fmt.Fprintf(&sb, " %s=%s", k, s)
	}
	fmt.Printf("%s %s:%s violations=%d wall=%.1fs\n", r.ID, r.Tier, sb.String(), r.violations, time.Since(r.start).Seconds())
	if r.violations > 0 {
		return 1
	}
	return 0
}

// ---- termination watchdog -------------------------------------------------------------------

var (
	beatCount int64
	beatInput atomic.Value
)

// Beat records that an execution on input w is starting (cheap; used by the watchdog).
func Beat(w []byte) {
	atomic.AddInt64(&beatCount, 1)
	beatInput.Store(w)
}

// LastBeat returns the input of the most recently started execution (nil if none).
func LastBeat() []byte {
	w, _ := beatInput.Load().([]byte)
	return w
}

// StartWatchdog reports a violation and exits 1 if no execution completes for `limit`: a single
// tiny execution that runs that long does not terminate for practical purposes. Exploration
// budgets are not wall-clock oracles; this only fires when one call hangs.
func (r *Run) StartWatchdog(limit time.Duration) {
	go func() {
		last := int64(-1)
		var since time.Time
		for {
			time.Sleep(5 * time.Second)
			c := atomic.LoadInt64(&beatCount)
			if c != last {
				last = c
				since = time.Now()
				continue
			}
			if c > 0 && time.Since(since) > limit {
				w, _ := beatInput.Load().([]byte)
				r.Violation(Replay{Engine: "watchdog", Entry: "(see input)", Sig: "non-termination", InputB64: append([]byte(nil), w...), Expected: "returns", Got: fmt.Sprintf("one execution still running after %v", limit)})
				os.Exit(r.Finish())
			}
		}
	}()
}

// ---- blocked-library-call detector ------------------------------------------------------------

// StartBlockDetector watches all goroutines: one that has been waiting continuously for at least
// a minute on a synchronisation primitive (mutex, channel, cond, wait group) with a function of
// the library itself as the innermost non-runtime frame is a library call that does not return
// (self-deadlock on a lock taken twice, a wait nobody will signal). It is reported as a
// violation with the last recorded input and the stack, and the check ends. The pending timer of
// this goroutine also keeps the Go runtime from ending the process with "all goroutines are
// asleep", which would otherwise look like a crash of the harness. The library as it stands
// contains no blocking operation, so this cannot fire on it; goroutines parked by the harness's
// own cooperative scheduler or inside handler callbacks have harness frames innermost.
func (r *Run) StartBlockDetector() {
	go func() {
		buf := make([]byte, 1<<20)
		for {
			time.Sleep(5 * time.Second)
			n := runtime.Stack(buf, true)
			if fn, stack := libraryBlocked(string(buf[:n])); fn != "" {
				if len(stack) > 3000 {
					stack = stack[:3000]
				}
				r.Violation(Replay{Engine: "blocked", Entry: fn, Sig: "library-call-blocked/" + fn, InputB64: append([]byte(nil), LastBeat()...), Expected: "returns", Got: "goroutine blocked inside the library for more than a minute:\n" + stack})
				os.Exit(r.Finish())
			}
		}
	}()
}

// libraryBlocked parses a full goroutine dump and returns the innermost library function and the
// stack of a goroutine that has been blocked for minutes directly inside the library.
func libraryBlocked(dump string) (string, string) {
	for _, g := range strings.Split(dump, "\n\n") {
		lines := strings.Split(g, "\n")
		if len(lines) < 2 || !strings.HasPrefix(lines[0], "goroutine ") || !strings.Contains(lines[0], " minutes") {
			continue
		}
		hdr := lines[0]
		blocked := false
		for _, st := range []string{"[sync.", "[semacquire", "[chan ", "[select"} {
			if strings.Contains(hdr, st) {
				blocked = true
			}
		}
		if !blocked {
			continue
		}
		for _, l := range lines[1:] {
			if strings.HasPrefix(l, "\t") || strings.HasPrefix(l, "created by") {
				continue
			}
			if strings.HasPrefix(l, "runtime.") || strings.HasPrefix(l, "sync.") || strings.HasPrefix(l, "sync/atomic.") || strings.HasPrefix(l, "internal/") || strings.Contains(l, "/verifhook/vsync.") {
				continue
			}
			// innermost frame that is neither runtime nor a sync primitive (nor its shim)
			if strings.HasPrefix(l, "github.com/willabides/rjson.") || strings.HasPrefix(l, "github.com/willabides/rjson/internal/") {
				fn := l
				if i := strings.IndexByte(fn, '('); i > 0 && !strings.HasPrefix(fn[i:], "(*") {
					fn = fn[:i]
				} else if j := strings.LastIndexByte(fn, '('); j > 0 {
					fn = fn[:j]
				}
				return strings.TrimPrefix(fn, "github.com/willabides/rjson"), g
			}
			break
		}
	}
	return "", ""
}
